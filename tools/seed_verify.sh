#!/bin/sh
# usage: tools/seed_verify.sh <prop> <i> [worktree]  -- confirms a sub-agent's change i in its scratch worktree (default /tmp/wt-<prop>)
# and runs our check of <prop> against it.  prints: demo(clean) demo(patched) suite(patched) check(patched)
prop=$1; i=$2; wt=${3:-/tmp/wt-$prop}; out=$wt/seeded_out
cd $wt || exit 3
git checkout -q -- . 
/venv/bin/python seeded_out/demo$i.py >/tmp/sv_demo_clean.txt 2>&1; d0=$?
git apply seeded_out/change$i.diff || { echo "patch does not apply"; exit 3; }
/venv/bin/python seeded_out/demo$i.py >/tmp/sv_demo_patched.txt 2>&1; d1=$?
/venv/bin/python -m pytest -q -p no:cacheprovider --timeout=900 --continue-on-collection-errors --junitxml=/tmp/sv_junit.xml >/dev/null 2>&1
/venv/bin/python /verif/tools/baseline_compare.py /tmp/sv_junit.xml >/tmp/sv_suite.txt 2>&1; s1=$?
git checkout -q -- .
# our check against /repo with the patch applied
git -C /repo apply $out/change$i.diff || { echo "patch does not apply to /repo"; exit 3; }
cd /verif && ./check $prop --tier quick --evidence-dir /tmp/esrally-verif-dev-evidence > /tmp/sv_check.txt 2>&1; c1=$?
git -C /repo checkout -q -- .
echo "prop=$prop change=$i demo_clean=$d0 demo_patched=$d1 suite_patched=$s1 ($(head -1 /tmp/sv_suite.txt)) check_exit=$c1"
grep -A1 'oracle=' /tmp/sv_check.txt | grep -v '^--' | cut -c1-400 | head -8
git -C /repo status --short | head -3
