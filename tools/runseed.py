#!/venv/bin/python
"""development helper: run one seed of a check in-process and print the result (twice, to compare digests)"""
import os, sys, json, importlib, logging
sys.path[:0] = ["/verif", "/repo"]
logging.disable(logging.CRITICAL)
import check as checkmod
from sim import batch
prop = sys.argv[1]; seed = int(sys.argv[2]); tier = sys.argv[3] if len(sys.argv) > 3 else "quick"
mod = importlib.import_module(checkmod.HARNESS_OF[prop]); h = mod.HARNESS
h.setup(prop, tier)
for i in range(2):
    r = batch.run_case(h, prop, tier, {"seed": seed}, want_choices=True)
    print("digest", r["digest"], "nontrivial", r["nontrivial"], "draws", r["draws"])
    for v in r["violations"]: print("  VIOL", v["key"], "\n     ", v["message"][:600])
if "-v" in sys.argv:
    print(json.dumps(r["cfg"], indent=1)); print(json.dumps(r["stats"]))
