#!/bin/sh
# Runs the repository's pinned test suite with the verification guard OFF and compares with BASELINE.json.
unset ESRALLY_VERIF_SIM
out="${1:-/tmp/esrally-verif-baseline.junit.xml}"
cd /repo && /venv/bin/python -m pytest -ra -q -p no:cacheprovider --timeout=900 --continue-on-collection-errors --junitxml="$out" >/dev/null 2>&1
/venv/bin/python /verif/tools/baseline_compare.py "$out"
