#!/usr/bin/env python3
"""Sensitivity helper (development only): apply a textual mutation to a file in /repo, run a check, revert.
usage: trymut.py <prop> <relative file> <old> <new> [extra check args]"""
import subprocess
import sys

prop, rel, old, new = sys.argv[1:5]
extra = sys.argv[5:]
path = "/repo/" + rel
src = open(path, encoding="utf-8").read()
if src.count(old) != 1:
    print(f"pattern occurs {src.count(old)} times"); sys.exit(3)
open(path, "w", encoding="utf-8").write(src.replace(old, new))
try:
    p = subprocess.run(["/verif/check", prop, "--tier", "quick", "--evidence-dir", "/tmp/esrally-verif-dev-evidence"] + extra, capture_output=True, text=True)
    lines = p.stdout.strip().splitlines()
    print("\n".join(lines[-8:]))
    print("exit", p.returncode)
finally:
    open(path, "w", encoding="utf-8").write(src)
    subprocess.run(["git", "-C", "/repo", "status", "--short"])
