#!/venv/bin/python
"""development helper: find which preceding run changes the digest of a seed (state leak between runs)"""
import os, sys, json, importlib, logging
sys.path[:0] = ["/verif", "/repo"]
logging.disable(logging.CRITICAL)
import check as checkmod
from sim import batch
from sim.chooser import derive_seed
prop = sys.argv[1]; target = int(sys.argv[2]); tier = sys.argv[3] if len(sys.argv) > 3 else "quick"
mod = importlib.import_module(checkmod.HARNESS_OF[prop]); h = mod.HARNESS
h.setup(prop, tier)
idx = None
for i in range(100000):
    if derive_seed(0, prop, "run", i) == target: idx = i; break
print("index", idx)
chunk = h.chunk_size(prop, tier)
start = (idx // chunk) * chunk
alone = batch.run_case(h, prop, tier, {"seed": target})["digest"]
print("alone", alone)
for j in range(start, idx):
    pid = os.fork()
    if pid == 0:
        batch.run_case(h, prop, tier, {"seed": derive_seed(0, prop, "run", j)})
        d = batch.run_case(h, prop, tier, {"seed": target})["digest"]
        print("after", j, derive_seed(0, prop, "run", j), d, "DIFF" if d != alone else "")
        os._exit(0)
    os.waitpid(pid, 0)
