#!/bin/sh
# Sensitivity self-test (not part of quick/thorough): every injected change under /verif/seeded/ is applied to a scratch
# worktree of /repo (outside /repo and /verif), the quick check of its property runs against that copy (VERIF_REPO) and must
# exit 1; the worktree is removed afterwards.  usage: tools/selftest.sh [budget seconds] [seed ids...]
budget=${1:-25}; shift 2>/dev/null
cd "$(dirname "$0")/.."
seeds="$@"; [ -z "$seeds" ] && seeds=$(ls seeded)
wt=$(mktemp -d /tmp/esrally-verif-selftest-XXXXXX)
git -C /repo worktree add -q --detach "$wt/repo" HEAD || exit 3
fail=0
for s in $seeds; do
  prop=${s%%-*}
  git -C "$wt/repo" checkout -q -- . && git -C "$wt/repo" apply "$PWD/seeded/$s/patch.diff" || { echo "$s: patch does not apply"; fail=1; continue; }
  VERIF_REPO="$wt/repo" ./check $prop --tier quick --evidence-dir /tmp/esrally-verif-dev-evidence --budget $budget > "$wt/$s.log" 2>&1
  rc=$?
  if [ $rc -eq 1 ]; then echo "$s: caught ($(grep -c '^VIOLATION' "$wt/$s.log") violation keys; $(grep -m1 'key=' "$wt/$s.log" | sed 's/.*key=//'))"; else echo "$s: NOT caught (exit $rc)"; fail=1; fi
done
git -C /repo worktree remove --force "$wt/repo"; rm -rf "$wt"
exit $fail
