#!/usr/bin/env python3
"""Compare a junit xml produced by the baseline command with /root/.vp/BASELINE.json (stable_pass)."""
import json
import sys
import xml.etree.ElementTree as ET

junit = sys.argv[1]
base = json.load(open(sys.argv[2] if len(sys.argv) > 2 else "/root/.vp/BASELINE.json"))
passed = set()
for tc in ET.parse(junit).getroot().iter("testcase"):
    if any(ch.tag in ("failure", "error", "skipped") for ch in tc):
        continue
    cls = tc.get("classname", "")
    passed.add(f"{cls}::{tc.get('name')}")
want = set(base["stable_pass"])
# BASELINE ids look like tests.mod.Class::name or tests.mod::name
missing = sorted(w for w in want if w not in passed)
print(f"stable_pass={len(want)} passed_now={len(passed)} missing={len(missing)}")
for m in missing[:40]:
    print("  MISSING", m)
sys.exit(1 if missing else 0)
