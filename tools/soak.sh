#!/bin/sh
# usage: tools/soak.sh <first seed> <last seed> [tier] [props...]   -- runs every check with several batch seeds, prints a summary line per run
first=$1; last=$2; tier=${3:-quick}; shift 3 2>/dev/null
props="$@"; [ -z "$props" ] && props="C01 C03 C04 C05 C06 C07 C09 C11 C12 C14 C16 C17 C18"
cd "$(dirname "$0")/.."
[ -n "$VP_RUN_REPO" ] && export VERIF_REPO=$VP_RUN_REPO
mkdir -p soak
for seed in $(seq $first $last); do
  for p in $props; do
    VERIF_SEED=$seed ./check $p --tier $tier --evidence-dir soak/evidence > soak/$p-$seed.log 2>&1
    rc=$?
    echo "seed=$seed $p exit=$rc $(grep -c '^VIOLATION' soak/$p-$seed.log) violations $(grep '^HARNESS-ERROR' soak/$p-$seed.log | head -1 | cut -c1-150)"
    if [ $rc -ne 0 ]; then grep -A1 'oracle=' soak/$p-$seed.log | cut -c1-600; fi
  done
done
