#!/venv/bin/python
"""Conformance of the Thespian model (sim/actors.py) with real Thespian for the behaviours Rally relies on.

The same small actor programs run (a) on real Thespian's in-process `simpleSystemBase` and (b) on the model; the
observable message traces must agree.  Real base: multiprocQueueBase (same actorManager code as the TCP base Rally uses; works offline).  Run by hand (`tools/thespian_conformance.py`); not part of the checks."""
import datetime
import sys
import time

sys.path[:0] = ["/verif", "/repo"]
import thespian.actors as th

import os

TRACE_FILE = "/tmp/esrally-verif-thespian-trace.txt"


class _Trace:
    """actors of a multi-process system live in other processes: the trace goes through a file"""

    def append(self, line):
        with open(TRACE_FILE, "a") as f:
            f.write(line + "\n")

    def clear(self):
        if os.path.exists(TRACE_FILE):
            os.remove(TRACE_FILE)

    def __iter__(self):
        if not os.path.exists(TRACE_FILE):
            return iter([])
        return iter(open(TRACE_FILE).read().splitlines())


TRACE = _Trace()


class Child(th.ActorTypeDispatcher):
    def receiveMsg_str(self, msg, sender):
        if msg == "boom":
            TRACE.append("child:boom-attempt")
            raise RuntimeError("boom")
        if msg == "ping":
            self.send(sender, "pong")
        if msg == "wake":
            self.parent = sender
            self.wakeupAfter(datetime.timedelta(milliseconds=10), payload="p")

    def receiveMsg_WakeupMessage(self, msg, sender):
        TRACE.append(f"child:wakeup sender-is-self={sender == self.myAddress} payload={msg.payload}")
        self.send(self.parent, "woke")

    def receiveMsg_ActorExitRequest(self, msg, sender):
        TRACE.append("child:exit-request")


class Picky(th.ActorTypeDispatcher):
    @staticmethod
    def actorSystemCapabilityCheck(capabilities, requirements):
        return capabilities.get("special") is True


class Parent(th.ActorTypeDispatcher):
    def receiveMsg_str(self, msg, sender):
        if msg == "start":
            self.boss = sender
            self.child = self.createActor(Child)
            self.send(self.child, "ping")
        elif msg == "pong":
            TRACE.append("parent:pong")
            self.send(self.child, "boom")
        elif msg == "wake-child":
            self.send(self.child, "wake")
        elif msg == "woke":
            TRACE.append("parent:child-woke")
            self.send(self.boss, "woke")
        elif msg == "stop-child":
            self.send(self.child, th.ActorExitRequest())
        elif msg == "late":
            self.send(self.child, "ping")  # to a dead actor
            self.send(self.boss, "late-sent")
        elif msg == "picky":
            self.picky = self.createActor(Picky)
            self.send(self.picky, "hello")

    def receiveMsg_PoisonMessage(self, msg, sender):
        TRACE.append(f"parent:poison of={msg.poisonMessage!r} from-child={sender == getattr(self, 'child', None) or sender == getattr(self, 'picky', None)}")
        self.send(self.boss, "poisoned")

    def receiveMsg_ChildActorExited(self, msg, sender):
        TRACE.append(f"parent:child-exited is-child={msg.childAddress == getattr(self, 'child', None) or msg.childAddress == getattr(self, 'picky', None)}")
        self.send(self.boss, "child-exited")


def scenario(ask, create):
    p = create(Parent)
    out = []
    out.append(ask(p, "start"))  # ping/pong, then boom twice -> poison
    out.append(ask(p, "wake-child"))
    out.append(ask(p, "stop-child"))
    out.append(ask(p, "late"))
    out.append(ask(p, "picky"))
    return out


def run_real():
    TRACE.clear()
    asys = th.ActorSystem(os.environ.get("THESPIAN_BASE", "multiprocQueueBase"))
    try:
        out = scenario(lambda a, m: asys.ask(a, m, 5), lambda c: asys.createActor(c))
    finally:
        asys.shutdown()
    return out, list(TRACE)


def run_model():
    from sim.actors import Host, SimActorSystem
    from sim.chooser import Chooser
    from sim.vclock import VClock

    TRACE.clear()
    clock = VClock()
    system = SimActorSystem(clock, Chooser(seed=1), [Host("coordinator", {"coordinator": True})], {"pickle": True})
    f = system.facade()
    out = scenario(lambda a, m: f.ask(a, m), lambda c: f.createActor(c))
    system.run_until_quiescent(5.0)
    return out, list(TRACE)


if __name__ == "__main__":
    real = run_real()
    model = run_model()
    print("real :", real[0])
    print("model:", model[0])
    ok = real[0] == model[0]
    # traces: same multiset and same per-actor order
    for who in ("parent", "child"):
        a = [t for t in real[1] if t.startswith(who)]
        b = [t for t in model[1] if t.startswith(who)]
        print(who, "real ", a)
        print(who, "model", b)
        ok = ok and a == b
    print("CONFORMS" if ok else "DIFFERS")
    sys.exit(0 if ok else 1)
