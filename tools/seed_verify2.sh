#!/bin/sh
# usage: tools/seed_verify2.sh <prop> <i> <worktree> [budget]  -- like seed_verify.sh, but everything (also our check, through
# VERIF_REPO) runs against the scratch worktree, so several changes can be confirmed side by side and /repo is never touched.
# prints: demo(clean) demo(patched) suite(patched) check(patched)
prop=$1; i=$2; wt=$3; budget=${4:-30}; out=$wt/seeded_out; tag=$(basename $wt)-$i
cd $wt || exit 3
git checkout -q -- .
/venv/bin/python seeded_out/demo$i.py >/tmp/sv2_${tag}_demo_clean.txt 2>&1; d0=$?
git apply seeded_out/change$i.diff || { echo "patch does not apply"; exit 3; }
/venv/bin/python seeded_out/demo$i.py >/tmp/sv2_${tag}_demo_patched.txt 2>&1; d1=$?
TMPDIR=$wt/.sv2tmp; export TMPDIR; mkdir -p $TMPDIR; /venv/bin/python -m pytest -q -p no:cacheprovider --timeout=900 --continue-on-collection-errors --junitxml=/tmp/sv2_${tag}_junit.xml >/dev/null 2>&1
/venv/bin/python /verif/tools/baseline_compare.py /tmp/sv2_${tag}_junit.xml >/tmp/sv2_${tag}_suite.txt 2>&1; s1=$?; unset TMPDIR
cd /verif && VERIF_REPO=$wt ./check $prop --tier quick --budget $budget --evidence-dir /tmp/esrally-verif-dev-evidence-$tag > /tmp/sv2_${tag}_check.txt 2>&1; c1=$?
git -C $wt checkout -q -- .; rm -rf $wt/.sv2tmp
echo "prop=$prop change=$i wt=$wt demo_clean=$d0 demo_patched=$d1 suite_patched=$s1 ($(head -1 /tmp/sv2_${tag}_suite.txt)) check_exit=$c1"
grep -A1 'oracle=' /tmp/sv2_${tag}_check.txt | grep -v '^--' | cut -c1-400 | head -6
rm -rf /tmp/esrally-verif-dev-evidence-$tag /tmp/sv2_${tag}_junit.xml
