#!/venv/bin/python
"""development helper: run a replay file in-process with Rally logging enabled to stderr"""
import sys, os, json, importlib, logging
sys.path[:0] = ["/verif", os.environ.get("VERIF_REPO", "/repo")]
import check as checkmod
from sim import batch
path = sys.argv[1]
rep = json.load(open(path))
prop = rep["property"]
if "-q" in sys.argv: logging.disable(logging.CRITICAL)
else: logging.basicConfig(level=logging.INFO if "-i" in sys.argv else logging.ERROR)
from esrally.utils import console; console.init(quiet=True)
mod = importlib.import_module(checkmod.HARNESS_OF[prop]); h = mod.HARNESS
h.setup(prop, "quick")
r = batch.run_case(h, prop, rep.get("tier","quick"), {"seed": rep["seed"], "cfg": rep["cfg"], "choices": rep["choices"]})
for v in r["violations"]: print("VIOL", v["key"], v["message"][:1500])
print(json.dumps(r["stats"])[:600])
h.teardown()
