"""Deterministic simulation core for elastic/rally (see /verif/DESIGN.md)."""
