"""A model of what Thespian guarantees to Rally (DESIGN.md 3.2), driving the *real* actor classes.

Real actor instances are created directly and given a ``SimRef`` as ``_myRef`` (the object Thespian
itself injects).  Everything else -- mailboxes, delivery order and delay, timers, process placement,
parent/child bookkeeping, exit protocol, poison messages, convention updates -- is decided here on
the virtual clock from seeded streams.  One global scheduler interleaves message deliveries with
the callbacks of the per-process virtual event loops (executor "threads").
"""
from __future__ import annotations

import copy
import datetime
import heapq
import pickle
import traceback

import thespian.actors as th

from sim.vclock import Proc
from sim.vloop import VLoop


class SimHang(BaseException):
    """the simulated system can make no further progress (or only re-arms periodic timers)"""


class HarnessBug(Exception):
    pass


class Cell:
    __slots__ = ("addr", "aid", "cls", "inst", "host", "parent", "children", "exiting", "dead", "proc", "loop", "started_at", "name", "pools", "exit_notified", "handler_depth", "wakeups")

    def __init__(self, aid, cls, host, parent):
        self.aid = aid
        self.addr = th.ActorAddress(aid)
        self.cls = cls
        self.inst = None
        self.host = host
        self.parent = parent
        self.children = []
        self.exiting = False
        self.dead = False
        self.proc = None
        self.loop = None
        self.started_at = None
        self.name = f"{cls.__name__}#{aid}" if cls else f"external#{aid}"
        self.pools = []
        self.exit_notified = False
        self.handler_depth = 0
        self.wakeups = 0


class Host:
    def __init__(self, name, capabilities, perf_origin=0.0, wall_skew=0.0):
        self.name = name
        self.capabilities = dict(capabilities)
        self.perf_origin = perf_origin
        self.wall_skew = wall_skew
        self.admin = None  # ActorAddress of its admin
        self.joined = True


class SimRef:
    """what an Actor sees as ``self._myRef``"""

    def __init__(self, system, cell):
        self._system = system
        self._cell = cell
        self.globalName = ""

    @property
    def address(self):
        return self._cell.addr

    def actor_send(self, target, msg):
        self._system.send(self._cell, target, msg)

    def createActor(self, actorClass, targetActorRequirements=None, globalName=None, sourceHash=None):
        return self._system.create_actor(actorClass, targetActorRequirements, parent=self._cell)

    def wakeupAfter(self, timePeriod, payload=None):
        self._system.wakeup_after(self._cell, timePeriod, payload)

    def notifyOnSystemRegistrationChanges(self, addr, startHandling=True):
        self._system.notify_registration(self._cell, startHandling)

    def handleDeadLetters(self, *a, **kw):
        pass

    def registerSourceAuthority(self, *a, **kw):
        pass

    def actorSystemShutdown(self):
        self._system.shutdown()


class SimActorSystem:
    """global scheduler + Thespian model"""

    def __init__(self, clock, ch, hosts, knobs=None):
        self.clock = clock
        self.ch = ch
        self.net = ch.stream("net")
        self.sched = ch.stream("sched")
        self.pre = ch.stream("preempt")
        k = knobs or {}
        self.base_latency = k.get("base_latency", (5e-5, 2e-3))
        self.remote_latency = k.get("remote_latency", (2e-4, 2e-2))
        self.stall_p = k.get("stall_p", 0.0)
        self.stall_range = k.get("stall_range", (0.05, 3.0))
        self.spawn_delay = k.get("spawn_delay", (0.01, 0.5))
        self.tie_window = k.get("tie_window", 0.0)
        self.p_preempt = k.get("p_preempt", 0.0)
        self.preempt_burst = k.get("preempt_burst", 3)
        self.pickle_messages = k.get("pickle", True)
        self.max_steps = k.get("max_steps", 400_000)
        self.hang_grace = k.get("hang_grace", 120.0)
        self.hosts = {h.name: h for h in hosts}
        self.host_order = [h.name for h in hosts]
        self.cells = {}
        self.next_aid = 1
        self.events = []  # heap of (time, seq, kind, data)
        self.seq = 0
        self.pair_last = {}
        self.history = []  # (seq, vtime, kind, detail...)
        self.steps = 0
        self.external = self._new_cell(None, self.hosts[self.host_order[0]], None)
        self.external.started_at = 0.0
        self.external.proc = Proc("main", self.hosts[self.host_order[0]].perf_origin, self.hosts[self.host_order[0]].wall_skew, self.host_order[0])
        self.replies = []
        self.registration_listeners = []
        self.current = None  # cell whose handler is on the stack
        self.max_timer = 1.0
        self.last_progress = 0.0
        self.max_delay_drawn = 0.0
        self.probes = {}
        self.faults = {}
        self.interrupt_at = None  # virtual time at which the external ask raises KeyboardInterrupt
        self.on_deliver = None  # observation hook (cell, msg, sender)
        self.on_handled = None  # observation hook (cell, msg), after the handler returned
        self.on_send = None  # observation hook (src cell or None, dst cell, msg): anchors faults on protocol events
        self.on_step = None
        self.timer_late = k.get("timer_late", True)
        self.timer_late_max = k.get("timer_late_max", 2e-3)  # timers fire late, never early; a loaded host is later
        self.hang = None
        self.step_marks = []
        self.budget_inconclusive = False
        self.max_virtual = None
        self.dropped_unpicklable = 0
        for i, name in enumerate(self.host_order):
            h = self.hosts[name]
            h.admin = th.ActorAddress(-(i + 1))

    # -- bookkeeping -----------------------------------------------------------------------
    def _new_cell(self, cls, host, parent):
        c = Cell(self.next_aid, cls, host, parent)
        self.next_aid += 1
        self.cells[c.aid] = c
        return c

    def log(self, kind, *detail):
        self.history.append((len(self.history), round(self.clock.now, 9), kind) + detail)

    def probe(self, name, n=1):
        self.probes[name] = self.probes.get(name, 0) + n

    def cell_of(self, addr):
        try:
            return self.cells.get(addr.addressDetails)
        except AttributeError:
            return None

    def push(self, t, kind, data):
        self.seq += 1
        heapq.heappush(self.events, (t, self.seq, kind, data))

    # -- delays ----------------------------------------------------------------------------
    def _latency(self, src, dst):
        lo, hi = self.base_latency if (src is None or dst is None or src.host is dst.host) else self.remote_latency
        d = self.net.uniform(lo, hi)
        if self.stall_p and self.net.coin(self.stall_p):
            d += self.net.uniform(*self.stall_range)
            self.probe("message_stall")
        self.max_delay_drawn = max(self.max_delay_drawn, d)
        return d

    # -- actor API -------------------------------------------------------------------------
    def send(self, src, target, msg):
        dst = self.cell_of(target)
        if dst is None:
            self.log("send-to-unknown", src.name if src else "-", type(msg).__name__)
            return
        if dst.started_at is None and dst.dead and dst.cls is not None and src is not None and src.cls is not None:
            # the actor could never be created (no actor system accepts it): what was sent to it comes back as poison
            # ("Child Aborted", thespian/system/systemCommon.py), from the system, not from the child
            self.log("send-to-aborted-child", src.name, type(msg).__name__)
            self.push(self.clock.now + self._latency(src, src), "sysmsg", (src.aid, th.PoisonMessage(msg, "Child Aborted"), src.host.admin if src.host else self.external.addr))
            return
        payload = msg
        if self.pickle_messages:
            try:
                payload = pickle.dumps(msg, protocol=pickle.HIGHEST_PROTOCOL)
            except Exception as e:  # a real transport cannot serialise it either: the message is lost
                self.dropped_unpicklable += 1
                self.log("unpicklable", src.name if src else "-", dst.name, type(msg).__name__, repr(e)[:120])
                return
        t = self.clock.now + self._latency(src, dst)
        if dst.started_at is not None:
            t = max(t, dst.started_at)
        key = (src.aid if src else 0, dst.aid)
        last = self.pair_last.get(key, -1.0)
        if t <= last:
            t = last + 1e-9  # FIFO per sender/receiver pair
        self.pair_last[key] = t
        self.log("send", src.name if src else "-", dst.name, type(msg).__name__)
        self.push(t, "msg", (dst.aid, src.aid if src else 0, payload, type(msg).__name__))
        if self.on_send:
            self.on_send(src, dst, msg)

    def create_actor(self, cls, requirements, parent):
        if parent is not None and parent.exiting:
            return th.ActorAddress(0)
        reqs = requirements or {}
        host = None
        required_cap = getattr(cls, "__thespian_required_capability__", None)
        for name in self.host_order:
            h = self.hosts[name]
            if not h.joined:
                continue
            try:
                ok = cls.actorSystemCapabilityCheck(h.capabilities, reqs) if hasattr(cls, "actorSystemCapabilityCheck") else True
            except Exception:
                ok = False
            if ok:
                host = h
                break
        cell = self._new_cell(cls, host, parent)
        if parent is not None:
            parent.children.append(cell)
        if host is None:
            # no actor system accepts it: the creator hears ChildActorExited, pending messages are poisoned
            cell.dead = True
            cell.started_at = None
            self.log("create-failed", cls.__name__, str(reqs))
            # (real Thespian reports the exit twice in this situation, see tools/thespian_conformance.py)
            t_abort = self.clock.now + self._latency(parent, parent)
            self.push(t_abort, "child-aborted", (parent.aid if parent else 0, cell.aid))
            self.push(t_abort + 2 * self.base_latency[1], "child-aborted", (parent.aid if parent else 0, cell.aid))
            return cell.addr
        delay = self.net.uniform(*self.spawn_delay)
        cell.started_at = self.clock.now + delay
        cell.proc = Proc(cell.name, host.perf_origin, host.wall_skew, host.name)
        self.log("create", cls.__name__, host.name, parent.name if parent else "-")
        self.push(cell.started_at, "start", cell.aid)
        return cell.addr

    def wakeup_after(self, cell, period, payload):
        secs = period.total_seconds() if isinstance(period, datetime.timedelta) else float(period)
        secs = max(0.0, secs)
        late = 0.0
        if self.timer_late:
            late = self.net.uniform(0, self.timer_late_max)
            if self.stall_p and self.net.coin(self.stall_p):
                late += self.net.uniform(*self.stall_range)
                self.probe("wakeup_stall")
        self.max_timer = max(self.max_timer, min(secs, 3600.0))
        self.max_delay_drawn = max(self.max_delay_drawn, late)
        self.push(self.clock.now + secs + late, "wakeup", (cell.aid, period, payload))

    def notify_registration(self, cell, start):
        if start:
            if cell not in self.registration_listeners:
                self.registration_listeners.append(cell)
            # one update per currently known remote member
            for name in self.host_order[1:]:
                h = self.hosts[name]
                if h.joined:
                    self._convention_update(cell, h, True)
        else:
            if cell in self.registration_listeners:
                self.registration_listeners.remove(cell)

    def _convention_update(self, cell, host, added):
        msg = th.ActorSystemConventionUpdate(host.admin, dict(host.capabilities), added)
        t = self.clock.now + self._latency(None, cell)
        key = (-1, cell.aid)
        last = self.pair_last.get(key, -1.0)
        if t <= last:
            t = last + 1e-9
        self.pair_last[key] = t
        self.push(t, "sysmsg", (cell.aid, msg, host.admin))

    # -- membership faults -----------------------------------------------------------------
    def host_join(self, name):
        h = self.hosts[name]
        if h.joined:
            return
        h.joined = True
        self.log("host-join", name)
        for cell in list(self.registration_listeners):
            self._convention_update(cell, h, True)

    def host_leave(self, name):
        h = self.hosts[name]
        if not h.joined:
            return
        h.joined = False
        self.log("host-leave", name)
        self.faults["daemon_left"] = self.faults.get("daemon_left", 0) + 1
        for cell in list(self.registration_listeners):
            self._convention_update(cell, h, False)
        # its actors are gone; local parents hear ChildActorExited (possibly twice)
        for cell in list(self.cells.values()):
            if cell.host is h and not cell.dead and cell.cls is not None:
                self._vanish(cell, notify_twice=self.net.coin(0.3))

    def kill(self, addr_or_cell):
        cell = addr_or_cell if isinstance(addr_or_cell, Cell) else self.cell_of(addr_or_cell)
        if cell is None or cell.dead:
            return False
        self.log("kill", cell.name)
        self.faults["process_killed"] = self.faults.get("process_killed", 0) + 1
        self._vanish(cell)
        return True

    def _vanish(self, cell, notify_twice=False):
        cell.dead = True
        cell.exiting = True
        if cell.loop is not None:
            cell.loop.discard()
        parent = cell.parent
        # orphaned children are told to exit by the system
        for ch_ in cell.children:
            if not ch_.dead:
                self.send(None, ch_.addr, th.ActorExitRequest())
        if parent is not None and not parent.dead and parent.cls is not None:
            for _ in range(2 if notify_twice else 1):
                self.push(self.clock.now + self._latency(cell, parent), "sysmsg", (parent.aid, th.ChildActorExited(cell.addr), cell.addr))

    # -- external facade -------------------------------------------------------------------
    def facade(self):
        return Facade(self)

    # -- running ---------------------------------------------------------------------------
    def _instantiate(self, cell):
        if cell.dead:
            return
        old = self.clock.proc
        self.clock.proc = cell.proc
        self.current_init = cell
        try:
            inst = cell.cls()
            inst._myRef = SimRef(self, cell)
            cell.inst = inst
        except Exception:
            self.log("init-failed", cell.name, traceback.format_exc()[-300:])
            self._vanish(cell)
        finally:
            self.current_init = None
            self.clock.proc = old

    def loop_for(self, cell):
        if cell.loop is None:
            cell.loop = VLoop(self.clock, name=cell.name, proc=cell.proc)
        return cell.loop

    def _deliver(self, cell, msg, sender_addr, is_system=False):
        """one invocation of receiveMessage incl. Thespian's retry / poison protocol"""
        if cell.dead or cell.inst is None:
            self.log("dead-letter", cell.name, type(msg).__name__)
            return
        if cell.exiting and not isinstance(msg, (th.ActorExitRequest, th.ChildActorExited)):
            self.log("dropped-exiting", cell.name, type(msg).__name__)
            return
        self.log("deliver", cell.name, type(msg).__name__)
        if not isinstance(msg, th.WakeupMessage):
            self.last_progress = self.clock.now
        if self.on_deliver:
            self.on_deliver(cell, msg, sender_addr)
        old_proc, old_cur = self.clock.proc, self.current
        self.clock.proc = cell.proc
        self.current = cell
        cell.handler_depth += 1
        self.preempt_budget = 6
        try:
            try:
                cell.inst.receiveMessage(msg, sender_addr)
            except Exception:
                self.log("handler-exception", cell.name, type(msg).__name__)
                if not isinstance(msg, th.ActorExitRequest):
                    try:
                        cell.inst.receiveMessage(copy.deepcopy(msg), sender_addr)
                    except Exception:
                        self.log("poison", cell.name, type(msg).__name__)
                        self.probe("poison_message")
                        if not isinstance(msg, th.PoisonMessage):
                            if isinstance(msg, th.ActorSystemConventionUpdate) and cell in self.registration_listeners:
                                # the admin drops a subscriber that poisons its updates
                                self.registration_listeners.remove(cell)
                            else:
                                self.send(cell, sender_addr, th.PoisonMessage(msg, traceback.format_exc()))
        finally:
            cell.handler_depth -= 1
            self.clock.proc, self.current = old_proc, old_cur
        if self.on_handled:
            self.on_handled(cell, msg)
        if isinstance(msg, th.ActorExitRequest):
            self._begin_exit(cell)
        elif isinstance(msg, th.ChildActorExited):
            self._child_exited(cell, msg.childAddress)

    def _begin_exit(self, cell):
        if cell.exiting:
            return
        cell.exiting = True
        live = [c for c in cell.children if not c.dead]
        if live:
            for c in live:
                self.send(cell, c.addr, th.ActorExitRequest())
        else:
            self._finish_exit(cell)

    def _child_exited(self, cell, child_addr):
        if cell.exiting and not cell.dead and all(c.dead for c in cell.children):
            self._finish_exit(cell)

    def _finish_exit(self, cell):
        if cell.dead:
            return
        cell.dead = True
        self.log("exit", cell.name)
        if cell.loop is not None:
            cell.loop.discard()
        p = cell.parent
        if p is not None and not p.dead and p.cls is not None:
            self.send(cell, p.addr, th.ChildActorExited(cell.addr))

    def preempt(self, cell=None):
        """called from operations on objects shared between an actor thread and its executor thread"""
        cell = cell or self.current
        if cell is None or cell is not self.current or cell.loop is None or cell.loop.in_callback:
            return
        if not self.p_preempt or self.preempt_budget <= 0:
            return
        if not self.pre.coin(self.p_preempt):
            return
        # the executor thread may get anything from one callback to a whole burst while the actor thread is descheduled
        k = self.pre.pick([1, 2, 3, 3, 10, 40, 150])
        window = self.pre.pick([0.0, 0.0, 1e-4, 5e-3, 0.05, 0.3])
        ran = 0
        for _ in range(k):
            t = cell.loop.next_time()
            if t is None or t > self.clock.now + window:
                break
            self.clock.advance_to(t)
            cell.loop.run_one()
            self.steps += 1
            ran += 1
        if ran:
            self.preempt_budget -= 1
            self.probe("handler_preempted_by_executor")

    def run_until(self, stop, max_virtual=None):
        """the scheduler: run events / loop callbacks until stop() is true"""
        while not stop():
            self.steps += 1
            if self.steps % 20000 == 0:
                self.step_marks.append(self.clock.now)
            if self.steps > self.max_steps:
                self.hang = f"step budget of {self.max_steps} exhausted at t={self.clock.now:.3f}"
                # a livelock does not advance virtual time; a busy system does
                self.budget_inconclusive = len(self.step_marks) >= 3 and self.clock.now - self.step_marks[-3] > 0.5
                raise SimHang(self.hang)
            cands = []
            if self.events:
                cands.append((max(self.events[0][0], self.clock.now), 0, None))
            busy_loops = False
            for cell in self.cells.values():
                if cell.loop is not None and not cell.dead:
                    t = cell.loop.next_time()
                    if t is not None:
                        cands.append((t, cell.aid, cell))
                        busy_loops = True
            if not cands:
                self.hang = f"nothing left to run at t={self.clock.now:.3f} (deadlock)"
                raise SimHang(self.hang)
            if self.interrupt_at is not None:
                tmin0 = min(c[0] for c in cands)
                if tmin0 >= self.interrupt_at:
                    self.clock.advance_to(self.interrupt_at)
                    self.interrupt_at = None
                    self.faults["user_interrupt"] = self.faults.get("user_interrupt", 0) + 1
                    self.log("keyboard-interrupt")
                    raise KeyboardInterrupt()
            # only periodic wake-ups left for a long time: a hang
            if not busy_loops and all(e[2] == "wakeup" for e in self.events):
                limit = self.last_progress + 4 * self.max_timer + self.hang_grace + 4 * self.max_delay_drawn
                if self.clock.now > limit:
                    self.hang = f"only periodic wake-ups since t={self.last_progress:.3f} (now {self.clock.now:.3f}): the system does not progress"
                    raise SimHang(self.hang)
            else:
                self.last_progress = max(self.last_progress, self.clock.now) if busy_loops else self.last_progress
            tmin = min(c[0] for c in cands)
            budget = max_virtual if max_virtual is not None else self.max_virtual
            if budget is not None and tmin > budget:
                self.hang = f"still running after {budget:.0f} simulated seconds (every task that is not ended by completed-by is short)"
                raise SimHang(self.hang)
            near = [c for c in cands if c[0] <= tmin + self.tie_window]
            pick = near[self.sched.choose(len(near))] if len(near) > 1 else near[0]
            t, _, cell = pick
            self.clock.advance_to(t)
            if cell is not None:
                cell.loop.run_one()
            else:
                self._run_event()
            if self.on_step:
                self.on_step()

    def _run_event(self):
        t, _, kind, data = heapq.heappop(self.events)
        if kind == "msg":
            dst_aid, src_aid, payload, tname = data
            dst = self.cells[dst_aid]
            if dst.aid == self.external.aid:
                msg = pickle.loads(payload) if self.pickle_messages else payload
                self.log("reply", tname)
                self.last_progress = self.clock.now
                self.replies.append(msg)
                return
            if dst.dead:
                self.log("dead-letter", dst.name, tname)
                return
            if dst.inst is None:
                # not started yet (start event pending): keep FIFO by re-queueing right after the start
                self.push(max(dst.started_at or self.clock.now, self.clock.now) + 1e-9, "msg", data)
                return
            msg = pickle.loads(payload) if self.pickle_messages else payload
            src = self.cells.get(src_aid)
            self._deliver(dst, msg, src.addr if src else self.external.addr)
        elif kind == "sysmsg":
            dst_aid, msg, sender = data
            dst = self.cells[dst_aid]
            if dst.inst is None and not dst.dead and dst.cls is not None:
                self.push(max(dst.started_at or self.clock.now, self.clock.now) + 1e-9, "sysmsg", data)
                return
            self._deliver(dst, msg, sender, is_system=True)
        elif kind == "start":
            self._instantiate(self.cells[data])
        elif kind == "wakeup":
            aid, period, payload = data
            cell = self.cells[aid]
            if cell.dead or cell.exiting:
                return
            cell.wakeups += 1
            self._deliver(cell, th.WakeupMessage(period, payload), cell.addr)
        elif kind == "child-aborted":
            parent_aid, child_aid = data
            parent = self.cells.get(parent_aid)
            child = self.cells[child_aid]
            if parent is not None and not parent.dead:
                self._deliver(parent, th.ChildActorExited(child.addr), child.addr, is_system=True)
        elif kind == "call":
            data()
        else:
            raise HarnessBug(kind)

    def quiescent(self):
        """nothing but periodic wake-ups is pending"""
        if any(e[2] not in ("wakeup",) for e in self.events):
            return False
        return not any(c.loop is not None and not c.dead and c.loop.next_time() is not None for c in self.cells.values())

    def run_until_quiescent(self, max_wait):
        """let everything that is in flight play out (bounded)"""
        limit = self.clock.now + max_wait
        self.call_at(limit, lambda: None)
        self.run_until(lambda: self.clock.now >= limit or self.quiescent())

    def call_at(self, t, fn):
        self.push(t, "call", fn)

    def shutdown(self):
        self.log("shutdown")
        for cell in self.cells.values():
            if cell.loop is not None:
                cell.loop.discard()

    def digest_lines(self):
        for h in self.history:
            yield "|".join(str(x) for x in h[1:])


class Facade:
    """what ``actor.bootstrap_actor_system`` returns to race control"""

    def __init__(self, system: SimActorSystem):
        self.system = system

    def createActor(self, actorClass, targetActorRequirements=None, globalName=None, sourceHash=None):
        return self.system.create_actor(actorClass, targetActorRequirements, parent=None)

    def tell(self, target, msg):
        self.system.send(self.system.external, target, msg)

    def ask(self, target, msg, timeout=None):
        s = self.system
        s.replies.clear()
        s.send(s.external, target, msg)
        old = s.clock.proc
        try:
            s.run_until(lambda: bool(s.replies))
        finally:
            s.clock.proc = old
        return s.replies.pop(0)

    def shutdown(self):
        # ActorSystem.shutdown() asks every actor to exit and waits: what is already queued in a mailbox ahead of the exit request is
        # still handled (e.g. a completion message that was on its way when the race failed)
        s = self.system
        if not getattr(s, "shutting_down", False):
            s.shutting_down = True
            saved = (s.hang, s.interrupt_at)
            s.interrupt_at = None
            try:
                s.run_until_quiescent(60.0)
            except SimHang:
                pass
            s.hang = saved[0]
        self.system.shutdown()
