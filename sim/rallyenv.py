"""Seams into Rally: everything here is an attribute assignment done before a simulated run and
undone afterwards (DESIGN.md 3.1).  Nothing in /repo is edited."""
from __future__ import annotations

import contextlib
import random

from sim.vclock import FakeTime, VClock

_TIME_MODULES = [
    "esrally.driver.driver",
    "esrally.driver.runner",
    "esrally.client.context",
    "esrally.client.factory",
    "esrally.time",
    "esrally.track.params",
    "esrally.utils.net",
    "esrally.rally",
]

_REGISTRIES = [
    ("esrally.driver.runner", "__RUNNERS"),
    ("esrally.driver.scheduler", "__SCHEDULERS"),
    ("esrally.track.params", "__PARAM_SOURCES_BY_OP"),
    ("esrally.track.params", "__PARAM_SOURCES_BY_NAME"),
]


def _mod(name):
    import importlib

    return importlib.import_module(name)


@contextlib.contextmanager
def patched_time(clock: VClock, on_sleep=None, modules=_TIME_MODULES):
    fake = FakeTime(clock, on_sleep=on_sleep)
    saved = []
    for name in modules:
        m = _mod(name)
        saved.append((m, m.time))
        m.time = fake
    try:
        yield fake
    finally:
        for m, t in saved:
            m.time = t


@contextlib.contextmanager
def saved_registries():
    """module-level registries are per-process state in reality; isolate runs from each other"""
    from esrally.driver import runner

    saved = []
    for mod_name, attr in _REGISTRIES:
        m = _mod(mod_name)
        d = m.__dict__[attr]
        saved.append((d, dict(d)))
    assertions = runner.AssertingRunner.assertions_enabled
    state = random.getstate()
    try:
        yield
    finally:
        for d, content in saved:
            d.clear()
            d.update(content)
        runner.AssertingRunner.assertions_enabled = assertions
        random.setstate(state)


def loadgen_config(on_error="continue", assertions=False, extra=None):
    """the configuration an ``AsyncIoAdapter`` needs (what the Worker would have loaded)"""
    from esrally import config
    from esrally.utils import opts

    cfg = config.Config()
    A = config.Scope.application
    hosts = opts.TargetHosts("127.0.0.1:9200")
    cfg.add(A, "client", "hosts", hosts)
    cfg.add(A, "client", "options", opts.ClientOptions("static_responses:'sim',timeout:60", target_hosts=hosts))
    cfg.add(A, "driver", "profiling", False)
    cfg.add(A, "driver", "assertions", assertions)
    cfg.add(A, "driver", "on.error", on_error)
    cfg.add(A, "mechanic", "distribution.version", "8.6.1")
    cfg.add(A, "mechanic", "distribution.flavor", "default")
    cfg.add(A, "track", "test.mode.enabled", False)
    for (section, key), value in (extra or {}).items():
        cfg.add(A, section, key, value)
    return cfg
