"""Virtual clock and the ``time`` stand-in assigned to Rally modules.

``VClock.now`` is global simulated seconds.  Every simulated OS process has its own
``perf_counter`` origin and wall-clock skew; ``FakeTime`` consults ``clock.proc`` (the process
the scheduler is currently executing) to translate.  Clock *reads* may advance the clock by a
few microseconds (seeded, from a dedicated noise stream) to model CPU time between two reads.
"""
from __future__ import annotations

import time as _real_time

EPOCH = 1_700_000_000.0


class Proc:
    """one simulated OS process (an actor plus, possibly, its executor thread's event loop)"""

    __slots__ = ("name", "perf_origin", "wall_skew", "host")

    def __init__(self, name, perf_origin=0.0, wall_skew=0.0, host="localhost"):
        self.name = name
        self.perf_origin = perf_origin
        self.wall_skew = wall_skew
        self.host = host


class VClock:
    def __init__(self, noise_stream=None, jitter=0.0):
        self.now = 0.0
        self.noise = noise_stream
        self.jitter = jitter
        self.proc = Proc("main")
        self.reads = 0
        self.sleeps = []  # (process name, duration) of blocking sleeps

    def advance_to(self, t):
        if t > self.now:
            self.now = t

    def advance(self, d):
        if d > 0:
            self.now += d

    def tick(self):
        self.reads += 1
        if self.jitter and self.noise is not None:
            self.now += self.jitter * self.noise.choose(1024) / 1023.0

    def perf(self):
        self.tick()
        return self.now + self.proc.perf_origin

    def wall(self):
        self.tick()
        return EPOCH + self.now + self.proc.wall_skew


class FakeTime:
    """replacement for the ``time`` module inside Rally modules (module attribute ``time``)"""

    def __init__(self, clock: VClock, on_sleep=None):
        self._clock = clock
        self._on_sleep = on_sleep

    def perf_counter(self):
        return self._clock.perf()

    def monotonic(self):
        return self._clock.perf()

    def time(self):
        return self._clock.wall()

    def sleep(self, seconds):
        # a blocking sleep of the current simulated thread
        self._clock.sleeps.append((self._clock.proc.name, seconds))
        if self._on_sleep is not None:
            self._on_sleep(seconds)
        else:
            self._clock.advance(seconds)

    def __getattr__(self, name):
        return getattr(_real_time, name)
