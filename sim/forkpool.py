"""A tiny fork-per-task pool.

Every task runs in a fresh child forked from the (pristine, fully imported) parent, so no
state of one chunk of simulated runs can leak into another one, whatever the worker count.
Results come back pickled over a pipe.  A child that exceeds its wall-clock limit is killed
and reported as ``TaskFailure`` -- never as a pass.
"""
from __future__ import annotations

import faulthandler
import os
import pickle
import selectors
import signal
import sys
import time
import traceback


class TaskFailure(Exception):
    def __init__(self, task_id, reason, detail=""):
        super().__init__(f"task {task_id}: {reason}\n{detail}")
        self.task_id = task_id
        self.reason = reason
        self.detail = detail


class ForkPool:
    def __init__(self, workers, task_wall_limit=300.0):
        self.workers = max(1, workers)
        self.limit = task_wall_limit
        self.sel = selectors.DefaultSelector()
        self.live = {}  # fd -> dict(pid, task_id, buf, started)

    def _spawn(self, task_id, fn, args):
        r, w = os.pipe()
        sys.stdout.flush()
        sys.stderr.flush()
        pid = os.fork()
        if pid == 0:
            # child
            try:
                os.close(r)
                for fd in list(self.live):
                    try:
                        os.close(fd)
                    except OSError:
                        pass
                faulthandler.enable(file=sys.stderr)
                faulthandler.dump_traceback_later(max(1.0, self.limit - 2.0), exit=False, file=sys.stderr)
                try:
                    res = ("ok", fn(*args))
                except BaseException:  # noqa
                    res = ("error", traceback.format_exc())
                data = pickle.dumps(res, protocol=pickle.HIGHEST_PROTOCOL)
                with os.fdopen(w, "wb") as f:
                    f.write(data)
            finally:
                os._exit(0)
        os.close(w)
        os.set_blocking(r, False)
        self.live[r] = {"pid": pid, "task_id": task_id, "buf": bytearray(), "started": time.monotonic()}
        self.sel.register(r, selectors.EVENT_READ)

    def run(self, task_iter, fn, on_result):
        """task_iter yields (task_id, args) lazily (may look at a deadline); on_result(task_id, value)
        is called in the parent.  Raises TaskFailure for a crashed/killed/erroring child."""
        task_iter = iter(task_iter)
        exhausted = False
        failure = None
        while True:
            while not exhausted and failure is None and len(self.live) < self.workers:
                try:
                    task_id, args = next(task_iter)
                except StopIteration:
                    exhausted = True
                    break
                self._spawn(task_id, fn, args)
            if not self.live:
                break
            events = self.sel.select(timeout=0.5)
            now = time.monotonic()
            for key, _ in events:
                fd = key.fd
                st = self.live[fd]
                try:
                    chunk = os.read(fd, 1 << 20)
                except BlockingIOError:
                    continue
                if chunk:
                    st["buf"] += chunk
                    continue
                # EOF
                self.sel.unregister(fd)
                os.close(fd)
                del self.live[fd]
                _, status = os.waitpid(st["pid"], 0)
                if not st["buf"]:
                    failure = failure or TaskFailure(st["task_id"], f"child died without result (status {status})")
                    continue
                kind, value = pickle.loads(bytes(st["buf"]))
                if kind == "error":
                    failure = failure or TaskFailure(st["task_id"], "exception in harness", value)
                    continue
                if failure is None:
                    on_result(st["task_id"], value)
            for fd, st in list(self.live.items()):
                if now - st["started"] > self.limit:
                    try:
                        os.kill(st["pid"], signal.SIGKILL)
                    except ProcessLookupError:
                        pass
                    failure = failure or TaskFailure(st["task_id"], f"wall-clock limit of {self.limit}s exceeded (killed)")
                    st["started"] = now + 1e9  # do not kill twice
        if failure is not None:
            raise failure
