"""Load-generator simulation: real ``AsyncIoAdapter.run`` per simulated worker on its own virtual
loop, against ``SimES``.  Shared by the C03/C04/C05/C06/C18 harnesses (DESIGN.md 5.2-5.5, 5.13)."""
from __future__ import annotations

import hashlib
import json
import threading

import aiohttp

from sim import rallyenv
from sim.simes import Installed, Outcome, SimES
from sim.vclock import Proc, VClock
from sim.vloop import VLoop, pending_tasks


def failing_prepare_step(**kw):
    """a preparation step handed out by the plug-in's track processor (runs in the task executor's pool) that fails at once"""
    PROCESSOR_RAISED.append(2)
    raise RuntimeError("simulated failure of a track preparation step")


PROCESSOR_RAISED = []  # the plug-in's track processor raised in on_prepare_track (reset per run by the harness)


class SimParamSource:
    """Track-plugin style parameter source (registered by name ``sim-params``): unique path per
    request, optional size (finite source), CPU cost per ``params()`` call, optional failure."""

    clock = None  # set per run
    raised = []  # (task, call index) of injected failures that actually fired (reset per run by the harness)

    def __init__(self, track, params, **kwargs):
        self._params = params
        self.plan = params.get("sim", {})
        self.index = 0
        self.total = 1
        self.seq = 0

    def partition(self, partition_index, total_partitions):
        p = SimParamSource(None, self._params)
        p.index = partition_index
        p.total = total_partitions
        if self.plan.get("progress"):
            p.percent_completed = 0.0
        return p

    @property
    def infinite(self):
        return self.plan.get("size") is None

    def size(self):
        return self.plan.get("size")

    def params(self):
        size = self.plan.get("size")
        seq = self.seq
        if size is not None and seq >= size:
            raise StopIteration()
        self.seq += 1
        if size is not None and self.plan.get("progress"):
            self.percent_completed = (seq + 1) / size
        cpu = _cyc(self.plan.get("cpu_params"), seq, 0)
        if cpu:
            SimParamSource.clock.advance(cpu)
        raise_at = self.plan.get("params_raise_at")
        if raise_at is not None and seq == raise_at:
            SimParamSource.raised.append((self.plan.get("task"), seq))
            raise RuntimeError(f"simulated parameter source failure at call {seq}")
        p = {k: v for k, v in self._params.items() if k != "sim"}
        p["path"] = f"/_sim/{self.plan['task']}/{self.index}/{seq}"
        p["sim-req"] = {
            "seq": seq,
            "nwire": _cyc(self.plan.get("nwire"), seq, 1),
            "weight": _cyc(self.plan.get("weights"), seq, 1),
            "unit": self.plan.get("unit", "ops"),
            "ret": self.plan.get("ret", "dict"),
            "cpu_pre": _cyc(self.plan.get("cpu_pre"), seq, 0),
            "cpu_post": _cyc(self.plan.get("cpu_post"), seq, 0),
            "soft_fail": str(seq) in (self.plan.get("soft_fail") or {}),
            "raise": (self.plan.get("runner_raise") or {}).get(str(seq)),
            "throughput": _cyc(self.plan.get("throughput"), seq, None),
            "completes_after": self.plan.get("completes_after"),
            "nest": bool(self.plan.get("nest")),
        }
        return p


def _cyc(lst, i, default):
    if not lst:
        return default
    return lst[i % len(lst)]


class SimRunner:
    """Track-plugin style runner (registered as operation type ``sim-op``)."""

    clock = None
    raised = []
    soft_failed = []  # requests for which the runner *returned* a failure (success: False) instead of raising
    nested_obs = []  # (path, wire index or None for the enclosing context, request_start, request_end) seen by the runner itself

    async def __aenter__(self):
        return self

    async def __aexit__(self, *a):
        return False

    async def __call__(self, es, params):
        req = params["sim-req"]
        path = params["path"]
        if req["cpu_pre"]:
            SimRunner.clock.advance(req["cpu_pre"])
        if req.get("raise"):
            SimRunner.raised.append((path, req["raise"]))
            if req["raise"] == "key":
                raise KeyError("missing-param")
            raise RuntimeError("simulated runner failure")
        if req.get("nest"):
            # what a plug-in runner may do: its own request context around everything, one more around each wire request
            with es.new_request_context() as mid:
                for i in range(req["nwire"]):
                    with es.new_request_context() as inner:
                        await es.perform_request(method="GET", path=f"{path}/{i}")
                        SimRunner.nested_obs.append((path, i, inner.request_start, inner.request_end))
                SimRunner.nested_obs.append((path, None, mid.request_start, mid.request_end))
        else:
            for i in range(req["nwire"]):
                await es.perform_request(method="GET", path=f"{path}/{i}")
        if req["cpu_post"]:
            SimRunner.clock.advance(req["cpu_post"])
        if req["ret"] == "tuple":
            return req["weight"], req["unit"]
        if req["ret"] == "none":
            return None
        d = {"weight": req["weight"], "unit": req["unit"]}
        if req["soft_fail"]:
            d["success"] = False
            d["weight"] = 0
            SimRunner.soft_failed.append(path)
        elif req["ret"] == "dict-success":
            d["success"] = True
        if req.get("throughput") is not None:
            d["throughput"] = req["throughput"]
        return d

    def __repr__(self):
        return "sim-op"


class SimPollRunner(SimRunner):
    """A runner that decides itself when the task is over (``completed`` / ``percent_completed``), like Rally's polling
    runners.  The state is the one of the last call; the executor reads it right after the call returned (no await in between)."""

    def __init__(self):
        self._completed = False
        self._progress = 0.0

    @property
    def completed(self):
        return self._completed

    @property
    def percent_completed(self):
        return self._progress

    async def __call__(self, es, params):
        ret = await super().__call__(es, params)
        req = params["sim-req"]
        after = req.get("completes_after")
        k = req["seq"] + 1
        self._completed = after is not None and k >= after
        self._progress = min(1.0, k / after) if after else 0.0
        return ret

    def __repr__(self):
        return "sim-poll"


class TraceLog:
    """harness-owned aiohttp TraceConfig appended *after* Rally's own: since it never ticks the clock it
    records exactly the instants Rally's hooks have just read"""

    def __init__(self, clock):
        self.clock = clock
        self.events = []  # (kind, session, path, vnow, perf)
        self.requests = []  # one record per HTTP request: {"session", "path", "start": (vnow, perf), "start_idx", "ends": [(vnow, perf, idx)]}

    def config(self):
        tc = aiohttp.TraceConfig()
        log = self

        async def on_start(session, ctx, params):
            ctx.path = params.url.path
            perf = log.clock.now + log.clock.proc.perf_origin
            ctx.rec = {"session": session, "path": ctx.path, "start": (log.clock.now, perf), "start_idx": len(log.events), "ends": []}
            log.requests.append(ctx.rec)
            log.events.append(("start", session, ctx.path, log.clock.now, perf))

        async def on_end(session, ctx, params):
            perf = log.clock.now + log.clock.proc.perf_origin
            rec = getattr(ctx, "rec", None)
            if rec is not None:
                rec["ends"].append((log.clock.now, perf, len(log.events)))
            log.events.append(("end", session, getattr(ctx, "path", None), log.clock.now, perf))

        tc.on_request_start.append(on_start)
        tc.on_response_chunk_received.append(on_end)
        tc.on_request_end.append(on_end)
        tc.on_request_exception.append(on_end)
        return tc


class ScheduleObserver:
    """observation-only wrappers around ScheduleHandle.__call__ / start"""

    def __init__(self, clock):
        self.clock = clock
        self.handles = {}  # (task name, client index in task) -> dict
        self.saved = None
        self.trace = None  # optional TraceLog: every yield notes how many trace events had happened

    def __enter__(self):
        from esrally.driver import driver

        self.saved = (driver.ScheduleHandle.__call__, driver.ScheduleHandle.start)
        orig_call, orig_start = self.saved
        obs = self

        def rec(handle):
            ta = handle.task_allocation
            key = (ta.task.name, ta.client_index_in_task)
            return obs.handles.setdefault(key, {"yields": [], "start_v": None, "start_perf": None, "global_index": ta.global_client_index, "total_clients": ta.total_clients})

        def call(self):
            agen = orig_call(self)
            r = rec(self)

            async def wrapper():
                try:
                    async for item in agen:
                        r["yields"].append((obs.clock.now, item[0], item[1], item[2], len(obs.trace.events) if obs.trace is not None else None))
                        yield item
                finally:
                    await agen.aclose()

            return wrapper()

        def start(self):
            r = rec(self)
            orig_start(self)
            r["start_v"] = obs.clock.now
            r["start_perf"] = obs.clock.now + obs.clock.proc.perf_origin

        driver.ScheduleHandle.__call__ = call
        driver.ScheduleHandle.start = start
        return self

    def __exit__(self, *exc):
        from esrally.driver import driver

        driver.ScheduleHandle.__call__, driver.ScheduleHandle.start = self.saved
        return False


class LoadStuck(Exception):
    """the simulated load generators do not come to an end: ``kind`` is 'deadlock' (a worker is not done but nothing is
    scheduled), 'livelock' (steps are taken but virtual time stands still) or 'budget' (busy, time advancing: inconclusive)"""

    def __init__(self, kind, msg):
        super().__init__(msg)
        self.kind = kind


class WorkerSim:
    def __init__(self, idx, proc, loop, sampler, cancel, complete, adapter):
        self.idx = idx
        self.proc = proc
        self.loop = loop
        self.sampler = sampler
        self.cancel = cancel
        self.complete = complete
        self.adapter = adapter
        self.task = None
        self.samples = []
        self.error = None


class LoadSim:
    """builds the track, the workers and steps them"""

    def __init__(self, ch, clock: VClock, on_error="continue", assertions=False, queue_size=1 << 20):
        self.ch = ch
        self.clock = clock
        self.cfg = rallyenv.loadgen_config(on_error=on_error, assertions=assertions)
        self.on_error = on_error
        self.queue_size = queue_size
        self.workers = []
        self.trace = TraceLog(clock)
        self.sample_marks = {}  # id(sample) -> number of trace events at the time it was recorded
        self.steps = 0
        self.timers = []  # (time, seqno, fn) harness-side events (external completion, drains)
        self._tseq = 0

    @staticmethod
    def build_track(track_spec):
        from esrally.track import loader

        reader = loader.TrackSpecificationReader()
        return reader("simtrack", track_spec, "/nonexistent-mapping-dir")

    def add_worker(self, track, proc: Proc, allocations, client_ids):
        """allocations: list of (client_id, TaskAllocation)"""
        from esrally.driver import driver

        loop = VLoop(self.clock, name=proc.name, proc=proc)
        saved = self.clock.proc
        self.clock.proc = proc
        try:
            sampler = driver.Sampler(start_timestamp=self.clock.perf(), buffer_size=self.queue_size)
        finally:
            self.clock.proc = saved
        # observation only: how many trace events had happened when a sample was recorded
        orig_put, marks, trace = sampler.q.put_nowait, self.sample_marks, self.trace

        def put_nowait(sample):
            marks[id(sample)] = len(trace.events)
            return orig_put(sample)

        sampler.q.put_nowait = put_nowait
        cancel = threading.Event()
        complete = threading.Event()
        contexts = {cid: driver.ClientContext(client_id=cid, parent_worker_id=len(self.workers)) for cid in client_ids}
        allocs = [driver.ClientAllocation(cid, ta) for cid, ta in allocations]
        adapter = driver.AsyncIoAdapter(self.cfg, track, allocs, sampler, cancel, complete, self.on_error, contexts, len(self.workers))
        w = WorkerSim(len(self.workers), proc, loop, sampler, cancel, complete, adapter)
        self.workers.append(w)
        return w

    def at(self, t, fn):
        self._tseq += 1
        self.timers.append((t, self._tseq, fn))
        self.timers.sort()

    def run(self, max_steps=400_000, tie_window=0.0):
        from esrally.client import asynchronous as a

        sched = self.ch.stream("sched")
        trace_cfg = self.trace.config()
        orig_create = a.RallyAiohttpHttpNode._create_aiohttp_session

        def create(node):
            if trace_cfg not in node.trace_configs:
                node.trace_configs = list(node.trace_configs) + [trace_cfg]
            orig_create(node)

        a.RallyAiohttpHttpNode._create_aiohttp_session = create
        marks = []
        try:
            for w in self.workers:
                w.task = w.loop.create_task(w.adapter.run())
            while not all(w.task.done() for w in self.workers):
                cands = []
                for w in self.workers:
                    t = w.loop.next_time()
                    if t is not None:
                        cands.append((t, w))
                if self.timers:
                    cands.append((max(self.timers[0][0], self.clock.now), None))
                if not any(c[1] is not None for c in cands) and not self.timers:
                    raise LoadStuck("deadlock", f"a worker is not done but nothing is scheduled at t={self.clock.now:.6f}")
                tmin = min(c[0] for c in cands)
                near = [c for c in cands if c[0] <= tmin + tie_window]
                t, w = near[sched.choose(len(near))] if len(near) > 1 else near[0]
                self.clock.advance_to(t)
                if w is None:
                    _, _, fn = self.timers.pop(0)
                    fn()
                else:
                    w.loop.run_one()
                self.steps += 1
                if self.steps % 50000 == 0:
                    marks.append(self.clock.now)
                if self.steps > max_steps:
                    if len(marks) >= 3 and self.clock.now - marks[-3] < 1e-6:
                        raise LoadStuck("livelock", f"{self.steps} steps taken, virtual time stands still at t={self.clock.now:.6f} since step {50000 * (len(marks) - 2)}")
                    raise LoadStuck("budget", f"step budget of {max_steps} exhausted at t={self.clock.now:.6f} (virtual time still advancing)")
        finally:
            a.RallyAiohttpHttpNode._create_aiohttp_session = orig_create
        for w in self.workers:
            w.samples += w.sampler.samples
            if w.task.done() and not w.task.cancelled() and w.task.exception() is not None:
                w.error = w.task.exception()
        self.shutdown()

    def shutdown(self):
        """Nothing of this run may survive into the next one: coroutines that are still pending (siblings of
        a failed executor, exactly what ``loop.close()`` abandons in production) are cancelled and unwound
        now, while this run's clock is still installed."""
        import asyncio
        import gc

        for w in self.workers:
            loop = w.loop
            for _ in range(3):
                pending = pending_tasks(loop)
                if not pending:
                    break
                for t in pending:
                    t.cancel()
                n = 0
                while n < 20000 and any(not t.done() for t in pending):
                    nt = loop.next_time()
                    if nt is None:
                        break
                    self.clock.advance_to(nt)
                    loop.run_one()
                    n += 1
            try:
                loop.run_until_complete(loop.shutdown_asyncgens())
            except Exception:
                pass
            loop.discard()
            loop.close()
        gc.collect()


def history_digest(simes: SimES, extra=None):
    h = hashlib.sha1()
    for w in simes.log:
        h.update(f"{w.seq}|{w.client_id}|{w.method}|{w.path}|{w.t_send:.9f}|{-1 if w.t_recv is None else round(w.t_recv, 9)}|{w.status}|{w.outcome}\n".encode())
    if extra is not None:
        h.update(json.dumps(extra, sort_keys=True, default=str).encode())
    return h.hexdigest()
