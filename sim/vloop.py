"""An externally stepped asyncio event loop on the virtual clock.

``next_time()`` says when this loop wants to run next; ``run_one()`` runs exactly one ready
callback.  There is no selector and no thread: whoever owns the simulation decides which loop
(or which actor handler) runs next.
"""
from __future__ import annotations

import asyncio
import heapq
import sys
import threading
from asyncio import base_events, events


class VLoop(base_events.BaseEventLoop):
    in_callback = False

    def __init__(self, clock, name="loop", proc=None):
        super().__init__()
        self.vclock = clock
        self.name = name
        self.proc = proc
        self._clock_resolution = 1e-9
        self.in_callback = False
        self.callbacks_run = 0
        self.unhandled = []
        self.set_exception_handler(self._record_exception)
        self._asyncgen_hooks_installed = False

    def _record_exception(self, loop, context):
        self.unhandled.append({k: repr(v)[:300] for k, v in context.items()})

    def is_running(self):
        return self.in_callback

    # -- clock ----------------------------------------------------------------------------
    def time(self):
        return self.vclock.now

    # -- pieces BaseEventLoop expects from a concrete loop ---------------------------------------
    def _process_events(self, event_list):
        pass

    def _write_to_self(self):
        pass

    def call_soon_threadsafe(self, callback, *args, context=None):
        return self.call_soon(callback, *args, context=context)

    def _check_thread(self):
        pass

    # -- stepping --------------------------------------------------------------------------
    def _move_due(self):
        sched = self._scheduled
        end_time = self.vclock.now + self._clock_resolution
        while sched:
            handle = sched[0]
            if handle._cancelled:
                heapq.heappop(sched)
                handle._scheduled = False
                continue
            if handle._when >= end_time:
                break
            heapq.heappop(sched)
            handle._scheduled = False
            self._ready.append(handle)
        self._timer_cancelled_count = 0

    def next_time(self):
        """virtual time at which this loop has something to run, or None if idle"""
        ready = self._ready
        while ready and ready[0]._cancelled:
            ready.popleft()
        if ready:
            return self.vclock.now
        sched = self._scheduled
        while sched and sched[0]._cancelled:
            h = heapq.heappop(sched)
            h._scheduled = False
        if sched:
            return max(self.vclock.now, sched[0]._when)
        return None

    def run_one(self):
        """run exactly one ready callback; returns False if nothing was ready"""
        if self.in_callback:
            raise RuntimeError("VLoop.run_one re-entered while a callback of this loop is on the stack")
        self._move_due()
        ready = self._ready
        while ready and ready[0]._cancelled:
            ready.popleft()
        if not ready:
            return False
        handle = ready.popleft()
        old_loop = events._get_running_loop()
        old_hooks = sys.get_asyncgen_hooks()
        old_proc = self.vclock.proc
        if self.proc is not None:
            self.vclock.proc = self.proc
        sys.set_asyncgen_hooks(firstiter=self._asyncgen_firstiter_hook, finalizer=self._asyncgen_finalizer_hook)
        events._set_running_loop(None)
        events._set_running_loop(self)
        self.in_callback = True
        try:
            handle._run()
        finally:
            self.in_callback = False
            events._set_running_loop(None)
            if old_loop is not None:
                events._set_running_loop(old_loop)
            sys.set_asyncgen_hooks(*old_hooks)
            self.vclock.proc = old_proc
        self.callbacks_run += 1
        handle = None
        return True

    def drain(self, until=None, max_callbacks=10_000_000):
        """run this loop alone (jumping the clock to its timers) until ``until()`` is true or idle"""
        n = 0
        while n < max_callbacks:
            if until is not None and until():
                return True
            t = self.next_time()
            if t is None:
                return until is None
            self.vclock.advance_to(t)
            self.run_one()
            n += 1
        raise RuntimeError("VLoop.drain: callback budget exhausted")

    def discard(self):
        """drop everything still scheduled (used when a simulated process is killed)"""
        for h in list(self._ready):
            h.cancel()
        for h in list(self._scheduled):
            h.cancel()
        self._ready.clear()
        self._scheduled.clear()

    # run_forever/run_until_complete are deliberately unusable: nothing may run behind the
    # scheduler's back
    def run_forever(self):
        raise RuntimeError("VLoop is stepped externally")

    def run_until_complete(self, future):
        """standalone convenience (only legal outside a simulation with several processes)"""
        fut = asyncio.ensure_future(future, loop=self)
        self.drain(until=fut.done)
        return fut.result()


def pending_tasks(loop):
    """tasks of ``loop`` that are not done, in creation order (``asyncio.all_tasks`` returns a set whose iteration order
    depends on object addresses, i.e. differs from process to process)"""
    def created(t):
        name = t.get_name()
        tail = name.rsplit("-", 1)[-1]
        return (int(tail) if tail.isdigit() else -1, name)

    return sorted((t for t in asyncio.all_tasks(loop) if not t.done()), key=created)
