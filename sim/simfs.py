"""File-system and HTTP seams for corpus preparation (DESIGN.md 5.10).

``SimFS`` wraps real files in a scratch directory.  Every low-level mutation (write, rename, unlink)
issued through the patched seams is one *operation* with an index; the fault plan may, at a given
index, (a) kill the process: un-flushed data is lost, the last write may be torn, and the file system
is frozen until the incarnation has unwound, so that clean-up code in ``except``/``finally`` blocks
has no effect -- exactly what a dead process leaves; (b) interrupt it (``KeyboardInterrupt``, file
system alive, clean-up runs); (c) fail the operation with ``OSError`` (ENOSPC / EIO).
Modification times come from a virtual clock that advances with every operation.
"""
from __future__ import annotations

import builtins
import errno
import os as _os
import types


class Crash(BaseException):
    """the simulated process was killed"""


class _OsProxy:
    """stand-in for the ``os`` module inside a Rally module: rename/remove go through SimFS"""

    def __init__(self, fs):
        self._fs = fs
        self.path = _os.path

    def rename(self, a, b):
        self._fs.op("rename", b)
        if self._fs.frozen:
            return
        _os.rename(a, b)  # (a rename keeps the modification time of the file: the virtual one of its last write, or what was set since)

    def replace(self, a, b):
        self.rename(a, b)

    def remove(self, p):
        self._fs.op("unlink", p)
        if self._fs.frozen:
            return
        _os.remove(p)

    def __getattr__(self, name):
        return getattr(_os, name)


class _WFile:
    """write-mode file with its own user-space buffer"""

    def __init__(self, fs, path, mode, encoding):
        self.fs = fs
        self.path = path
        self.text = "b" not in mode
        self.encoding = encoding or "utf-8"
        self.buf = bytearray()
        self.closed = False
        self.name = path
        if "x" in mode and _os.path.exists(path):
            raise FileExistsError(errno.EEXIST, "File exists", path)
        fs.op("open-truncate", path)
        self.real = None
        if not fs.frozen:
            self.real = builtins.open(path, "ab" if "a" in mode else "wb")
            fs.touch(path)

    def write(self, data):
        if self.text:
            data = data.encode(self.encoding)
        self.buf += data
        if len(self.buf) >= self.fs.flush_threshold:
            self._flush()
        return len(data)

    def _flush(self, torn=None):
        if not self.buf:
            return
        kind = self.fs.op("write", self.path, nbytes=len(self.buf))
        if self.fs.frozen and kind != "crash-now":
            self.buf.clear()
            return
        if kind == "crash-now":
            # a torn write: only a prefix of the buffer reached the file
            cut = self.fs.torn_cut(len(self.buf))
            if self.real is not None and cut:
                self.real.write(bytes(self.buf[:cut]))
                self.real.flush()
                self.fs.touch(self.path)
            self.buf.clear()
            raise Crash()
        if self.real is not None:
            self.real.write(bytes(self.buf))
            self.real.flush()
            self.fs.touch(self.path)
        self.buf.clear()

    def flush(self):
        self._flush()

    def tell(self):
        return (self.real.tell() if self.real else 0) + len(self.buf)

    def fileno(self):
        return self.real.fileno()

    def close(self):
        if self.closed:
            return
        self.closed = True
        try:
            if not self.fs.frozen:
                self._flush()
        finally:
            if self.real is not None:
                self.real.close()
                if not self.fs.frozen:
                    self.fs.touch(self.path)

    def __enter__(self):
        return self

    def __exit__(self, *exc):
        self.close()
        return False


class SimFS:
    def __init__(self, stream, flush_threshold=8192):
        self.stream = stream
        self.flush_threshold = flush_threshold
        self.vtime = 1_000_000.0
        self.tick = 1.0  # virtual seconds per operation; with a small tick several files get modification times within one second
        self.ops = 0
        self.plan = {}  # op index -> ("kill" | "interrupt" | "enospc" | "eio")
        self.frozen = False
        self.fired = {}
        self.log = []
        self.torn_fraction = None

    # -- plan -----------------------------------------------------------------------------
    def new_incarnation(self, plan):
        self.ops = 0
        self.plan = dict(plan or {})
        self.frozen = False

    def op(self, kind, path, nbytes=0):
        """account for one mutation; may raise according to the plan"""
        if self.frozen:
            return "frozen"
        idx = self.ops
        self.ops += 1
        self.vtime += self.tick
        self.log.append((idx, kind, _os.path.basename(path), nbytes))
        what = self.plan.get(idx)
        if what is None:
            return "ok"
        self.fired[what] = self.fired.get(what, 0) + 1
        if what == "kill":
            self.frozen = True
            if kind == "write":
                return "crash-now"
            raise Crash()
        if what == "interrupt":
            raise KeyboardInterrupt()
        if what == "enospc":
            raise OSError(errno.ENOSPC, "No space left on device (simulated)", path)
        if what == "eio":
            raise OSError(errno.EIO, "Input/output error (simulated)", path)
        return "ok"

    def torn_cut(self, n):
        if self.torn_fraction is None:
            return 0
        return int(n * self.torn_fraction)

    def touch(self, path):
        try:
            _os.utime(path, (self.vtime, self.vtime))
        except OSError:
            pass

    # -- seams ----------------------------------------------------------------------------
    def open(self, file, mode="r", buffering=-1, encoding=None, errors=None, newline=None, closefd=True, opener=None):
        if any(c in mode for c in "wax+"):
            return _WFile(self, file, mode, encoding)
        return builtins.open(file, mode, buffering, encoding, errors, newline, closefd, opener)

    def os_proxy(self):
        return _OsProxy(self)


# ---------------------------------------------------------------------------------------------
# HTTP
# ---------------------------------------------------------------------------------------------
class FakeResponse:
    def __init__(self, http, outcome, body):
        self.http = http
        self.outcome = outcome
        self.body = body
        self.status = outcome.get("code", 200) if outcome["kind"] == "status" else 200
        self.headers = {}
        data = body
        if outcome["kind"] == "short":
            data = body[: int(len(body) * outcome["fraction"])]
        elif outcome["kind"] == "corrupt":
            data = bytes((b ^ 0x5A) for b in body[: max(1, len(body))])
        # (any other status comes with a small HTML page of its own, announced with its length as servers and proxies do)
        self.data = data if self.status == 200 else b"<html><body>" + str(self.status).encode() + b"</body></html>"
        if outcome.get("content_length", True):
            declared = len(body) if outcome["kind"] in ("short", "protocol-error", "read-timeout") else len(self.data)
            self.headers["Content-Length"] = str(declared)

    def getheader(self, name, default=None):
        return self.headers.get(name, default)

    def stream(self, chunk_size):
        import urllib3

        sent = 0
        k = 0
        out = self.outcome
        while sent < len(self.data):
            if out["kind"] in ("protocol-error", "read-timeout") and k >= out["after_chunks"]:
                break
            chunk = self.data[sent : sent + chunk_size]
            sent += len(chunk)
            k += 1
            yield chunk
        if out["kind"] == "protocol-error":
            raise urllib3.exceptions.ProtocolError("Connection broken: IncompleteRead (simulated)")
        if out["kind"] == "read-timeout":
            raise urllib3.exceptions.ReadTimeoutError(None, "http://sim", "Read timed out. (simulated)")
        if out["kind"] == "short" and "Content-Length" in self.headers:
            # what urllib3 does with enforce_content_length=True
            raise urllib3.exceptions.ProtocolError("Connection broken: IncompleteRead(%d bytes read, %d more expected)" % (sent, len(self.body) - sent))
        if self.status == 200:
            self.http.served_complete.append(self.data)

    def __enter__(self):
        return self

    def __exit__(self, *exc):
        return False

    def release_conn(self):
        pass


class SimHTTP:
    """stands in for ``net._HTTP`` / ``net._HTTPS``"""

    def __init__(self, bodies, script):
        self.bodies = bodies  # file name -> bytes
        self.script = list(script)
        self.requests = []
        self.fired = {}
        self.served_complete = []  # bodies that were delivered without any error a client could notice

    def request(self, method, url, **kwargs):
        import urllib3

        name = url.split("?")[0].rsplit("/", 1)[-1]
        n = len(self.requests)
        self.requests.append((method, url))
        outcome = self.script[n] if n < len(self.script) else {"kind": "ok"}
        if outcome["kind"] != "ok":
            key = outcome["kind"] + ("" if outcome["kind"] != "status" else f"-{outcome['code']}") + ("-no-length" if outcome.get("content_length", True) is False else "")
            self.fired[key] = self.fired.get(key, 0) + 1
        if name not in self.bodies:
            return FakeResponse(self, {"kind": "status", "code": 404}, b"")
        if outcome["kind"] == "connect-error":
            raise urllib3.exceptions.MaxRetryError(None, url, "simulated connection failure")
        return FakeResponse(self, outcome, self.bodies[name])
