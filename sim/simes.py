"""The simulated Elasticsearch endpoint behind Rally's own static-response seam.

Rally's ``static_responses`` client option makes ``RallyAiohttpHttpNode`` use ``StaticConnector`` /
``StaticRequest`` / ``StaticResponse`` instead of a TCP connector.  The harness replaces
``StaticRequest.send`` and ``StaticResponse.start`` (class attributes) by versions that consult
this object: every wire request is recorded with virtual send/receive times and the issuing
client, is answered after a virtual service time and may fail.  Everything above that seam --
aiohttp ``ClientSession`` with its trace hooks and time-outs, elastic-transport with its
retries, elasticsearch-py, Rally's client, runners and executor -- is the real code.
"""
from __future__ import annotations

import asyncio
import json
from typing import Any, Callable, Dict, List, Optional

import aiohttp
from multidict import CIMultiDict, CIMultiDictProxy


class Wire:
    """one HTTP request as seen by the simulated cluster"""

    __slots__ = ("seq", "client_id", "method", "path", "query", "body", "t_send", "t_recv", "t_headers", "status", "outcome", "delay", "body_delay", "proc", "resp_body", "tag")

    def __init__(self):
        self.t_recv = None
        self.status = None
        self.outcome = None
        self.tag = None
        self.resp_body = None

    def as_dict(self):
        return {k: getattr(self, k) for k in ("seq", "client_id", "method", "path", "t_send", "t_recv", "status", "outcome")}


class Outcome:
    __slots__ = ("delay", "kind", "status", "body", "body_delay")

    def __init__(self, delay=0.0, kind="ok", status=200, body=None, body_delay=0.0):
        self.delay = delay  # until the status line and the headers have arrived
        self.body_delay = body_delay  # from then until the last chunk of the body has arrived
        self.kind = kind  # ok | status | conn-error | disconnect | timeout | body-timeout | hang
        self.status = status
        self.body = body


class _Reader(aiohttp.streams.EmptyStreamReader):
    def __init__(self, data: bytes, wire=None, es=None):
        super().__init__()
        self._data = data
        self._wire = wire
        self._es = es

    async def read(self, n: int = -1) -> bytes:
        w = self._wire
        if w is not None and w.body_delay:
            # the body is streamed: its last chunk arrives some time after the headers
            try:
                await asyncio.sleep(w.body_delay)
            finally:
                w.t_recv = self._es.clock.now
        if w is not None and w.outcome == "body-timeout":
            # the client's time-out strikes while the body is being read: status line and headers have arrived, the rest never does
            raise asyncio.TimeoutError()
        return self._data


def default_body(method, path, body_bytes):
    """a minimal well-formed response for the request"""
    p = path.rstrip("/")
    if p.endswith("/_bulk"):
        lines = [l for l in (body_bytes or b"").split(b"\n") if l]
        items = []
        i = 0
        took = 3
        while i < len(lines):
            try:
                action = json.loads(lines[i])
            except ValueError:
                action = {"index": {}}
            op = next(iter(action))
            items.append({op: {"_index": action[op].get("_index", "x"), "status": 200 if op in ("update", "delete") else 201, "result": "created", "_shards": {"total": 1, "successful": 1, "failed": 0}}})
            i += 1 if op == "delete" else 2
        return {"took": took, "errors": False, "items": items}
    if p.endswith("/_search") or p.endswith("/_async_search"):
        return {"_scroll_id": "c2ltLXNjcm9sbA==", "took": 2, "timed_out": False, "_shards": {"total": 1, "successful": 1, "skipped": 0, "failed": 0}, "hits": {"total": {"value": 3, "relation": "eq"}, "hits": [{"_id": "1", "sort": [1]}, {"_id": "2", "sort": [2]}, {"_id": "3", "sort": [3]}]}}
    if p.startswith("/_cluster/health"):
        return {"cluster_name": "sim", "status": "green", "timed_out": False, "number_of_nodes": 1, "relocating_shards": 0, "initializing_shards": 0, "unassigned_shards": 0}
    if p.endswith("/_refresh") or p.endswith("/_forcemerge") or p.endswith("/_flush"):
        return {"_shards": {"total": 2, "successful": 2, "failed": 0}}
    if p.startswith("/_cluster/settings"):
        return {"acknowledged": True, "persistent": {}, "transient": {}}
    if method == "HEAD":
        return {}
    if p == "":
        return {"name": "sim", "cluster_name": "sim", "version": {"number": "8.6.1", "build_flavor": "default", "build_hash": "abc"}}
    return {"acknowledged": True}


class SimES:
    """process-wide simulated cluster (one per simulated run)"""

    current: Optional["SimES"] = None

    def __init__(self, clock, policy: Callable[["Wire"], Outcome]):
        self.clock = clock
        self.policy = policy
        self.log: List[Wire] = []
        self.sessions: Dict[Any, Any] = {}
        self.inflight = 0
        self.max_inflight = 0
        self.on_event: Optional[Callable[[str, Wire], None]] = None
        # consulted when the response of a so far successful request is due: may turn it into an HTTP error (a fault that is
        # placed by what has happened while the request was in flight)
        self.late_policy: Optional[Callable[[Wire], Optional[int]]] = None

    # called from the patched StaticRequest.send
    def on_send(self, req) -> Wire:
        w = Wire()
        w.seq = len(self.log)
        w.client_id = self.sessions.get(req._session)
        w.method = req.method
        url = req.original_url
        w.path = url.path
        w.query = dict(url.query)
        body = req.body
        data = None
        if body is not None:
            data = getattr(body, "_value", None)
            if not isinstance(data, (bytes, bytearray)):
                data = bytes(body) if isinstance(body, (bytes, bytearray)) else None
        w.body = data
        w.t_send = self.clock.now
        w.proc = self.clock.proc.name
        out = self.policy(w)
        w.delay = out.delay
        w.body_delay = out.body_delay if out.kind in ("ok", "status", "body-timeout") else 0.0
        w.outcome = out.kind
        w.status = out.status if out.kind in ("ok", "status", "body-timeout") else None
        if out.kind in ("ok", "status", "body-timeout"):
            body = out.body if out.body is not None else (default_body(w.method, w.path, data) if out.kind in ("ok", "body-timeout") else {"error": {"type": "sim_exception", "reason": "injected"}, "status": out.status})
            w.resp_body = body if isinstance(body, bytes) else json.dumps(body).encode("utf-8")
        self.log.append(w)
        self.inflight += 1
        self.max_inflight = max(self.max_inflight, self.inflight)
        if self.on_event:
            self.on_event("send", w)
        return w

    def on_done(self, w: Wire):
        w.t_recv = self.clock.now
        w.t_headers = self.clock.now
        self.inflight -= 1
        if self.on_event:
            self.on_event("recv", w)


def _patched_send():
    async def send(self, conn):
        self.response = self.response_class(
            self.method,
            self.original_url,
            writer=self._writer,
            continue100=self._continue,
            timer=self._timer,
            request_info=self.request_info,
            traces=self._traces,
            loop=self.loop,
            session=self._session,
        )
        self.response._sim_wire = SimES.current.on_send(self)
        return self.response

    return send


def _patched_start():
    async def start(self, connection):
        self._closed = False
        self._protocol = connection.protocol
        self._connection = connection
        es = SimES.current
        w = self._sim_wire
        try:
            if w.outcome == "hang":
                await asyncio.sleep(10**9)
            if w.delay > 0:
                await asyncio.sleep(w.delay)
        finally:
            es.on_done(w)
        if es.late_policy is not None and w.outcome == "ok":
            late_status = es.late_policy(w)
            if late_status:
                w.outcome, w.status = "status", late_status
                w.resp_body = json.dumps({"error": {"type": "sim_exception", "reason": "injected"}, "status": late_status}).encode("utf-8")
        if w.outcome == "conn-error":
            raise aiohttp.ClientConnectionError("simulated connection reset")
        if w.outcome == "disconnect":
            # (aiohttp itself re-sends an idempotent request once after this error, without telling the trace hooks)
            raise aiohttp.ServerDisconnectedError()
        if w.outcome == "timeout":
            raise asyncio.TimeoutError()
        self._headers = CIMultiDictProxy(CIMultiDict({"content-type": "application/json"}))
        self.content = _Reader(w.resp_body, w, es)
        self.status = w.status
        self.reason = "OK"
        return self

    return start


class Installed:
    """context manager: route Rally's static-response seam to ``simes``"""

    def __init__(self, simes: SimES):
        self.simes = simes
        self.saved = None

    def __enter__(self):
        from esrally.client import asynchronous as a

        self.saved = (a.StaticRequest.send, a.StaticResponse.start, a.StaticRequest.RESPONSES, a.RallyAiohttpHttpNode._create_aiohttp_session, SimES.current)
        a.StaticRequest.send = _patched_send()
        a.StaticResponse.start = _patched_start()
        a.StaticRequest.RESPONSES = {"sim": True}  # truthy: the responses file is never read
        orig_create = self.saved[3]
        simes = self.simes

        def create(node):
            orig_create(node)
            simes.sessions[node.session] = node.client_id

        a.RallyAiohttpHttpNode._create_aiohttp_session = create
        SimES.current = self.simes
        return self.simes

    def __exit__(self, *exc):
        from esrally.client import asynchronous as a

        a.StaticRequest.send, a.StaticResponse.start, a.StaticRequest.RESPONSES, a.RallyAiohttpHttpNode._create_aiohttp_session, SimES.current = self.saved
        return False
