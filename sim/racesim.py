"""Whole-race simulation: enters Rally at its command-line dispatch and runs race control, mechanic
(external), driver, track preparation, workers, executors, runners and client stack -- all real --
on the Thespian model of ``sim.actors`` and the simulated cluster of ``sim.simes`` (DESIGN.md 5)."""
from __future__ import annotations

import datetime
import hashlib
import json
import os
import random
import shutil
import sys
import tempfile

from sim.vloop import pending_tasks  # noqa: E402

from sim import rallyenv
from sim.actors import Host, SimActorSystem, SimHang
from sim.pool import namespaces
from sim.simes import Installed, Outcome, SimES
from sim.vclock import VClock

PLUGIN = '''import os

from sim.loadsim import PROCESSOR_RAISED, SimParamSource, SimRunner, failing_prepare_step


class SimProcessor:
    """a track processor of the plug-in whose preparation step fails (only registered when the harness asks for it)"""

    def on_after_load_track(self, track):
        pass

    def on_prepare_track(self, track, data_root_dir):
        with open(os.path.join(os.path.dirname(__file__), "processor-raises")) as f:
            how = f.read().strip()
        if how == "task":
            # the step is run by the task executor's pool, like the preparation of a corpus
            return [(failing_prepare_step, {})]
        PROCESSOR_RAISED.append(1)
        raise RuntimeError("simulated track processor failure")


def register(registry):
    registry.register_param_source("sim-params", SimParamSource)
    registry.register_runner("sim-op", SimRunner(), async_runner=True)
    # user-defined operation types are free-form strings: the same runner under names with underscores
    registry.register_runner("sim_op", SimRunner(), async_runner=True)
    registry.register_runner("sim-op_v2", SimRunner(), async_runner=True)
    if os.path.exists(os.path.join(os.path.dirname(__file__), "processor-raises")):
        from esrally.track import loader

        registry.register_track_processor(loader.DefaultTrackPreparator())
        registry.register_track_processor(SimProcessor())
'''


def doc_line(task, i):
    return ('{"n":%d,"task":"%s"}\n' % (i, task)).encode()


def leaf_tasks(schedule):
    for ei, el in enumerate(schedule):
        if "parallel" in el:
            for t in el["parallel"]["tasks"]:
                yield ei, el, t
        else:
            yield ei, el, el["task"]


def task_json(t):
    op = {"name": t.get("opname", f"op-{t['name']}"), "operation-type": t.get("optype", t["op"])}
    if t["op"] in ("sim-op", "raw-request"):
        op["param-source"] = "sim-params"
        op["sim"] = t["sim"]
        op["method"] = "GET"
    elif t["op"] == "bulk":
        op["bulk-size"] = t["bulk_size"]
        op["corpora"] = [f"c-{t['name']}"]
    elif t["op"] == "sleep":
        op["duration"] = t["duration"]
    elif t["op"] == "cluster-health":
        op["index"] = f"idx-{t['name']}"
        op["request-params"] = {"wait_for_status": "green"}
    elif t["op"] == "refresh":
        op["index"] = f"idx-{t['name']}"
    elif t["op"] == "composite":
        op["requests"] = t["requests"]
        if t.get("max-connections"):
            op["max-connections"] = t["max-connections"]
    j = {"name": t["name"], "operation": op, "clients": t["clients"]}
    for k in ("warmup-iterations", "iterations", "warmup-time-period", "time-period", "target-throughput", "target-interval", "schedule", "tags"):
        if t.get(k) is not None:
            j[k] = t[k]
    return j


def track_json(cfg):
    schedule = []
    corpora = []
    indices = []
    for ei, el, t in leaf_tasks(cfg["schedule"]):
        if t["op"] == "bulk":
            corpora.append(
                {
                    "name": f"c-{t['name']}",
                    "documents": [{"source-file": f"docs-{t['name']}.json", "document-count": t["docs"], "uncompressed-bytes": sum(len(doc_line(t["name"], i)) for i in range(t["docs"])), "target-index": f"idx-{t['name']}"}],
                }
            )
            indices.append({"name": f"idx-{t['name']}"})
    for el in cfg["schedule"]:
        if "parallel" in el:
            p = el["parallel"]
            pj = {"tasks": [task_json(t) for t in p["tasks"]]}
            for k in ("clients", "completed-by", "ramp-up-time-period", "warmup-time-period", "time-period", "iterations", "warmup-iterations"):
                if p.get(k) is not None:
                    pj[k] = p[k]
            schedule.append({"parallel": pj})
        else:
            schedule.append(task_json(el["task"]))
    challenges = [{"name": "sim-challenge", "default": True, "schedule": schedule}]
    decoy = cfg.get("decoy")
    if decoy:
        # a second challenge that is not raced: the same tasks (equal in everything but their tags).  Filters are applied to every
        # challenge of a track; what they decide for one challenge must not leak into another
        def retag(tj):
            tj = json.loads(json.dumps(tj))
            if decoy["tags"].get(tj["name"]) is not None:
                tj["tags"] = decoy["tags"][tj["name"]]
            else:
                tj.pop("tags", None)
            return tj

        dsched = []
        for el in schedule:
            if "parallel" in el:
                dsched.append({"parallel": dict(el["parallel"], tasks=[retag(t) for t in el["parallel"]["tasks"]])})
            else:
                dsched.append(retag(el))
        d = {"name": "decoy-challenge", "default": False, "schedule": dsched}
        challenges = [d] + challenges if decoy.get("first") else challenges + [d]
    spec = {"version": 2, "description": "generated", "indices": indices or [{"name": "idx-none"}], "corpora": corpora, "challenges": challenges}
    if not corpora:
        spec.pop("corpora")
    return spec


class RaceOutcome:
    def __init__(self):
        self.exit_status = None
        self.exception = None
        self.hang = None
        self.system = None
        self.simes = None
        self.clock = None
        self.delivered_to_race_control = []  # (vtime, class name, payload summary)
        self.race_control_msgs = []
        self.race_json = None
        self.report = None
        self.store_docs = None
        self.worker_events = []
        self.progress = []
        self.summarize_calls = 0
        self.results_stored = 0
        self.track_dir = None
        self.harness_error = None


class RaceSim:
    """one simulated race; ``home`` is a scratch RALLY_HOME prepared by the harness"""

    def __init__(self, ch, cfg, home):
        self.ch = ch
        self.cfg = cfg
        self.home = home
        self.run_dir = None

    # -- files -------------------------------------------------------------------------------
    def write_track(self):
        self.run_dir = tempfile.mkdtemp(prefix="race-", dir=self.home)
        tdir = os.path.join(self.run_dir, "simtrack")
        os.makedirs(tdir)
        with open(os.path.join(tdir, "track.json"), "w", encoding="utf-8") as f:
            json.dump(track_json(self.cfg), f)
        with open(os.path.join(tdir, "track.py"), "w", encoding="utf-8") as f:
            f.write(PLUGIN)
        for _, _, t in leaf_tasks(self.cfg["schedule"]):
            if t["op"] == "bulk":
                with open(os.path.join(tdir, f"docs-{t['name']}.json"), "wb") as f:
                    for i in range(t["docs"]):
                        f.write(doc_line(t["name"], i))
        return tdir

    def cleanup(self):
        if self.run_dir:
            shutil.rmtree(self.run_dir, ignore_errors=True)

    # -- the run -----------------------------------------------------------------------------
    def run(self, policy_factory, prepare=None, observe=None):
        """policy_factory(clock, ch) -> SimES policy; prepare(system, simes, outcome) is called before dispatch"""
        from esrally import actor, config, metrics, paths, racecontrol, rally, reporter
        from esrally.driver import driver
        from esrally.mechanic import mechanic
        from esrally.utils import console, process
        from sim.loadsim import SimParamSource, SimRunner

        cfg = self.cfg
        knobs = cfg.get("knobs", {})
        ch = self.ch
        out = RaceOutcome()
        clock = VClock(noise_stream=ch.stream("clock-noise"), jitter=knobs.get("jitter", 0))
        out.clock = clock
        hosts = []
        for i, name in enumerate(cfg["hosts"]):
            hc = cfg.get("host_clocks", [{}] * len(cfg["hosts"]))[i]
            caps = {"coordinator": i == 0, "ip": "127.0.0.1" if name == "localhost" else name}
            hosts.append(Host(name, caps, perf_origin=hc.get("perf_origin", 0.0), wall_skew=hc.get("wall_skew", 0.0)))
        # the coordinator is the first host; 'localhost' in load_driver_hosts means the coordinator
        if not any(h.capabilities["coordinator"] for h in hosts):
            hosts[0].capabilities["coordinator"] = True
        knobs = dict(knobs)
        knobs.setdefault("max_steps", 250_000)
        system = SimActorSystem(clock, ch, hosts, knobs)
        # every generated task that is not cut by completed-by is short; a race that is still running long after is a hang
        system.max_virtual = cfg.get("max_virtual", 150.0 * len(cfg["schedule"]) + 400.0)
        out.system = system
        simes = SimES(clock, policy_factory(clock, ch))
        out.simes = simes
        tdir = self.write_track()
        out.track_dir = tdir
        # Rally's track loader leaves a rendered copy of the track in the temp directory at every load: keep it in the run directory
        saved_tmp = tempfile.tempdir
        report_file = os.path.join(self.run_dir, "report.md")

        concurrent_ns, threading_ns, queue_ns = namespaces(system)
        saved = {
            "driver.concurrent": driver.concurrent,
            "driver.threading": driver.threading,
            "driver.queue": driver.queue,
            "actor.bootstrap": actor.bootstrap_actor_system,
            "actor.running": actor.actor_system_already_running,
            "process.find": process.find_all_other_rally_processes,
            "worker.wakeup": driver.Worker.WAKEUP_INTERVAL_SECONDS,
            "driver.wakeup": driver.DriverActor.WAKEUP_INTERVAL_SECONDS,
            "driver.post": driver.DriverActor.POST_PROCESS_INTERVAL_SECONDS,
            "mechanic.flush": mechanic.METRIC_FLUSH_INTERVAL_SECONDS,
            "sys.path": list(sys.path),
            "summarize": reporter.summarize,
            "results_store": metrics.results_store,
            "progress": console.progress,
            "console.error": console.error,
            "console.warn": console.warn,
        }
        facade = system.facade()
        already_running = len(cfg["hosts"]) > 1 or knobs.get("daemon", False)

        class _Progress:
            def print(self_, message, progress):
                out.progress.append((clock.now, message, progress))

            def finish(self_):
                out.progress.append((clock.now, None, None))

        def summarize(results, cfg_):
            out.summarize_calls += 1
            return saved["summarize"](results, cfg_)

        def results_store(cfg_):
            store = saved["results_store"](cfg_)
            orig = store.store_results

            def store_results(race):
                out.results_stored += 1
                return orig(race)

            store.store_results = store_results
            return store

        def on_deliver(cell, msg, sender):
            cname = cell.cls.__name__
            mname = type(msg).__name__
            if cname == "BenchmarkActor":
                out.race_control_msgs.append((clock.now, mname))
            if observe:
                observe(system, cell, msg, sender)

        system.on_deliver = on_deliver
        try:
            tempfile.tempdir = self.run_dir
            driver.concurrent, driver.threading, driver.queue = concurrent_ns, threading_ns, queue_ns
            actor.bootstrap_actor_system = lambda *a, **kw: facade
            actor.actor_system_already_running = lambda *a, **kw: already_running
            process.find_all_other_rally_processes = lambda: []
            driver.Worker.WAKEUP_INTERVAL_SECONDS = knobs.get("worker_wakeup", 5)
            driver.DriverActor.WAKEUP_INTERVAL_SECONDS = knobs.get("driver_wakeup", 1)
            driver.DriverActor.POST_PROCESS_INTERVAL_SECONDS = knobs.get("post_process", 30)
            reporter.summarize = summarize
            metrics.results_store = results_store
            console.progress = lambda *a, **kw: _Progress()
            console.error = lambda *a, **kw: None
            console.warn = lambda *a, **kw: None
            SimParamSource.clock = clock
            SimRunner.clock = clock
            with rallyenv.saved_registries(), rallyenv.patched_time(clock), Installed(simes):
                random.seed(cfg.get("rand", 0))
                rcfg = config.Config()
                if not rcfg.config_present():
                    rcfg.install_default_config()
                rcfg.load_config(auto_upgrade=True)
                A = config.Scope.application
                rcfg.add(A, "system", "time.start", datetime.datetime(2024, 1, 1, 12, 0, 0))
                rcfg.add(A, "node", "rally.root", paths.rally_root())
                rcfg.add(A, "node", "rally.cwd", self.run_dir)
                rcfg.add(A, "system", "available.cores", cfg["cores"])
                if knobs.get("queue_size"):
                    rcfg.add(A, "reporting", "sample.queue.size", knobs["queue_size"])
                if knobs.get("downsample"):
                    rcfg.add(A, "reporting", "metrics.request.downsample.factor", knobs["downsample"])
                argv = [
                    "race",
                    "--track-path", tdir,
                    "--pipeline", "benchmark-only",
                    "--distribution-version", "8.6.1",
                    "--target-hosts", "127.0.0.1:9200",
                    "--client-options", "static_responses:'sim',timeout:60" + (",retry_on_timeout:true" if cfg.get("client_retry_on_timeout") else ""),
                    "--on-error", cfg.get("on_error", "continue"),
                    "--load-driver-hosts", ",".join(cfg["hosts"]),
                    "--race-id", "race-sim-1",
                    "--report-file", report_file,
                    "--offline",
                ]  # fmt: skip
                if cfg.get("test_mode"):
                    argv.append("--test-mode")
                if cfg.get("include"):
                    argv += ["--include-tasks", ",".join(cfg["include"])]
                if cfg.get("exclude"):
                    argv += ["--exclude-tasks", ",".join(cfg["exclude"])]
                parser = rally.create_arg_parser()
                args = parser.parse_args(argv)
                if prepare:
                    prepare(system, simes, out, rcfg)
                try:
                    out.exit_status = rally.dispatch_sub_command(parser, args, rcfg)
                except SimHang as e:
                    out.hang = str(e)
                except BaseException as e:  # noqa
                    out.exception = e
                if system.hang and not out.hang:
                    out.hang = system.hang
                if not out.hang and not getattr(system, "shutting_down", False):
                    # `esrally race` has returned, but the actors live in the daemon's actor system (several hosts) and go on handling
                    # what is queued for them, e.g. a completion message that was on its way when the race failed
                    system.shutting_down = True
                    saved_hang, system.interrupt_at = system.hang, None
                    try:
                        system.run_until_quiescent(60.0)
                    except SimHang:
                        pass
                    system.hang = saved_hang
                # artefacts
                race_file = os.path.join(self.home, ".rally", "benchmarks", "races", "race-sim-1", "race.json")
                if os.path.exists(race_file):
                    with open(race_file, encoding="utf-8") as f:
                        out.race_json = json.load(f)
                if os.path.exists(report_file):
                    with open(report_file, encoding="utf-8") as f:
                        out.report = f.read()
                # nothing of this run may survive (see LoadSim.shutdown)
                self._unwind(system)
        finally:
            driver.concurrent, driver.threading, driver.queue = saved["driver.concurrent"], saved["driver.threading"], saved["driver.queue"]
            actor.bootstrap_actor_system = saved["actor.bootstrap"]
            actor.actor_system_already_running = saved["actor.running"]
            process.find_all_other_rally_processes = saved["process.find"]
            driver.Worker.WAKEUP_INTERVAL_SECONDS = saved["worker.wakeup"]
            driver.DriverActor.WAKEUP_INTERVAL_SECONDS = saved["driver.wakeup"]
            driver.DriverActor.POST_PROCESS_INTERVAL_SECONDS = saved["driver.post"]
            mechanic.METRIC_FLUSH_INTERVAL_SECONDS = saved["mechanic.flush"]
            reporter.summarize = saved["summarize"]
            metrics.results_store = saved["results_store"]
            console.progress = saved["progress"]
            console.error = saved["console.error"]
            console.warn = saved["console.warn"]
            sys.path[:] = saved["sys.path"]
            tempfile.tempdir = saved_tmp
            shutil.rmtree(os.path.join(self.home, ".rally", "benchmarks", "races", "race-sim-1"), ignore_errors=True)
        return out

    def _unwind(self, system):
        import asyncio
        import gc

        for cell in system.cells.values():
            loop = cell.loop
            if loop is None or loop.is_closed():
                continue
            for _ in range(3):
                pending = pending_tasks(loop)
                if not pending:
                    break
                for t in pending:
                    t.cancel()
                n = 0
                while n < 20000 and any(not t.done() for t in pending):
                    nt = loop.next_time()
                    if nt is None:
                        break
                    system.clock.advance_to(nt)
                    loop.run_one()
                    n += 1
            try:
                loop.run_until_complete(loop.shutdown_asyncgens())
            except Exception:
                pass
            loop.discard()
            loop.close()
        gc.collect()


def race_digest(out: RaceOutcome):
    h = hashlib.sha1()
    for line in out.system.digest_lines():
        h.update(line.encode())
        h.update(b"\n")
    for w in out.simes.log:
        h.update(f"{w.seq}|{w.client_id}|{w.path}|{w.t_send:.9f}|{-1 if w.t_recv is None else round(w.t_recv, 9)}|{w.status}|{w.outcome}\n".encode())
    h.update(str(out.exit_status).encode())
    return h.hexdigest()
