"""Stand-ins for what an actor shares with its executor thread: ThreadPoolExecutor, Future,
threading.Event, queue.Queue.  They are reached through module attributes of
``esrally.driver.driver`` (``concurrent``, ``threading``, ``queue``).  Every operation on a shared
object is a pre-emption point of the scheduler (DESIGN.md 3.4)."""
from __future__ import annotations

import asyncio
import collections
import queue as _real_queue
import threading as _real_threading
import types


class SimFuture:
    def __init__(self, system, cell):
        self._system = system
        self._cell = cell
        self._done = False
        self._result = None
        self._exc = None
        self._task = None
        self._cancelled = False
        self._due = None  # a function submitted to the pool: when it will have run, and the thunk that runs it
        self._run = None

    def _finish(self, result=None, exc=None):
        self._done = True
        self._result = result
        self._exc = exc

    def _from_task(self, task):
        self._task = task

        def cb(t):
            if t.cancelled():
                self._finish(exc=asyncio.CancelledError())
            elif t.exception() is not None:
                self._finish(exc=t.exception())
            else:
                self._finish(result=t.result())

        task.add_done_callback(cb)

    def done(self):
        self._system.preempt(self._cell)
        return self._done

    def running(self):
        self._system.preempt(self._cell)
        return not self._done

    def cancelled(self):
        return False

    def cancel(self):
        return False

    def exception(self, timeout=None):
        if not self._done:
            self._block()
        return self._exc

    def result(self, timeout=None):
        if not self._done:
            self._block()
        if self._exc is not None:
            raise self._exc
        return self._result

    def _block(self):
        """the calling (actor) thread blocks: only the executor of this process can run meanwhile"""
        loop = self._cell.loop
        if loop is None or loop.in_callback:
            raise RuntimeError("blocking on an unfinished future from inside its own executor")
        self._system.probe("actor_thread_blocked_on_future")
        n = 0
        while not self._done:
            t = loop.next_time()
            if t is None:
                raise RuntimeError("blocked forever on a future whose executor is idle")
            self._system.clock.advance_to(t)
            loop.run_one()
            n += 1
            if n > 200000:
                raise RuntimeError("future did not complete")


def sim_wait(fs, timeout=None, return_when="ALL_COMPLETED"):
    """concurrent.futures.wait for the calling (actor) thread: virtual time passes while it blocks, and only the executors of
    the futures' own processes run meanwhile"""
    import concurrent.futures as _cf

    fs = list(fs)
    if fs:
        system = fs[0]._system
        deadline = None if timeout is None else system.clock.now + timeout
        for f in fs:
            if f._done:
                continue
            if f._run is not None:
                if deadline is None or f._due <= deadline:
                    system.clock.advance_to(max(system.clock.now, f._due))
                    f._run()
            else:
                loop = f._cell.loop
                n = 0
                while not f._done and loop is not None and not loop.in_callback:
                    t = loop.next_time()
                    if t is None or (deadline is not None and t > deadline):
                        break
                    system.clock.advance_to(t)
                    loop.run_one()
                    n += 1
                    if n > 200000:
                        break
        if deadline is not None and any(not f._done for f in fs):
            system.clock.advance_to(max(system.clock.now, deadline))
        system.probe("actor_thread_waited_for_future")
    return _cf._base.DoneAndNotDoneFutures({f for f in fs if f._done}, {f for f in fs if not f._done})


class SimPool:
    """ThreadPoolExecutor(max_workers=1) of a simulated process"""

    system = None  # set per run

    def __init__(self, max_workers=None, **kw):
        s = SimPool.system
        self._system = s
        self._cell = getattr(s, "current_init", None) or s.current
        self._shutdown = False
        if self._cell is not None:
            self._cell.pools.append(self)

    def submit(self, fn, *args, **kwargs):
        s = self._system
        cell = self._cell
        fut = SimFuture(s, cell)
        if hasattr(fn, "run") and asyncio.iscoroutinefunction(fn.run):
            # AsyncIoAdapter.__call__ creates a loop and runs self.run() to completion on the executor thread
            loop = s.loop_for(cell)
            task = loop.create_task(fn.run())
            fut._from_task(task)
            s.log("executor-start", cell.name)
        else:
            # most preparation steps take a while, some are over at once (everything is in place already)
            delay = s.net.uniform(0.0005, 0.04) if s.net.coin(0.3) else s.net.uniform(0.04, 0.8)

            def run():
                if cell.dead or fut._done:
                    return
                old = s.clock.proc
                s.clock.proc = cell.proc
                try:
                    fut._finish(result=fn(*args, **kwargs))
                except BaseException as e:  # noqa
                    fut._finish(exc=e)
                finally:
                    s.clock.proc = old
                s.log("pool-task-done", cell.name, getattr(fn, "__name__", "fn"))

            fut._due, fut._run = s.clock.now + delay, run
            s.call_at(s.clock.now + delay, run)
        return fut

    def shutdown(self, wait=True, **kw):
        self._shutdown = True


class SimEvent:
    system = None

    def __init__(self):
        self._flag = False
        self._system = SimEvent.system

    def is_set(self):
        self._system.preempt()
        return self._flag

    def set(self):
        self._system.preempt()
        self._flag = True

    def clear(self):
        self._system.preempt()
        self._flag = False

    def wait(self, timeout=None):
        return self._flag


class SimQueue:
    system = None

    def __init__(self, maxsize=0):
        self.maxsize = maxsize
        self._q = collections.deque()
        self._system = SimQueue.system

    def put_nowait(self, item):
        self._system.preempt()
        if self.maxsize and len(self._q) >= self.maxsize:
            raise _real_queue.Full()
        self._q.append(item)

    def put(self, item, block=True, timeout=None):
        self.put_nowait(item)

    def get_nowait(self):
        self._system.preempt()
        if not self._q:
            raise _real_queue.Empty()
        return self._q.popleft()

    def get(self, block=True, timeout=None):
        return self.get_nowait()

    def empty(self):
        return not self._q

    def qsize(self):
        return len(self._q)


def namespaces(system):
    """(concurrent, threading, queue) module stand-ins bound to ``system``"""
    SimPool.system = system
    SimEvent.system = system
    SimQueue.system = system
    import concurrent.futures as _cf

    futures = types.SimpleNamespace(ThreadPoolExecutor=SimPool, Future=SimFuture, wait=sim_wait, FIRST_COMPLETED=_cf.FIRST_COMPLETED, FIRST_EXCEPTION=_cf.FIRST_EXCEPTION, ALL_COMPLETED=_cf.ALL_COMPLETED, TimeoutError=_cf.TimeoutError, CancelledError=_cf.CancelledError)
    concurrent = types.SimpleNamespace(futures=futures)
    threading = types.SimpleNamespace(Event=SimEvent, get_ident=_real_threading.get_ident, current_thread=_real_threading.current_thread, Lock=_real_threading.Lock)
    queue = types.SimpleNamespace(Queue=SimQueue, Empty=_real_queue.Empty, Full=_real_queue.Full)
    return concurrent, threading, queue
