"""The only source of decisions in a simulated run.

A ``Chooser`` hands out named *streams*.  Every stream is an independent, recorded
sequence of small non-negative integers.  In search mode a stream draws from its own
``random.Random`` derived from (run seed, stream name); in replay mode it returns the
recorded values (clamped into range) and ``0`` once the recording is exhausted.  ``0`` is
by convention the quiet choice everywhere: first candidate, minimum delay, no fault.

Streams exist so that minimisation can zero or truncate one concern (say, service times)
without shifting the meaning of the draws of another (say, message delays).
"""
from __future__ import annotations

import hashlib
import random
from typing import Dict, List, Optional


def derive_seed(*parts) -> int:
    h = hashlib.sha256("/".join(str(p) for p in parts).encode()).digest()
    return int.from_bytes(h[:8], "big")


class Stream:
    __slots__ = ("name", "rng", "replay", "pos", "log", "limit")

    def __init__(self, name: str, rng: Optional[random.Random], replay: Optional[List[int]]):
        self.name = name
        self.rng = rng
        self.replay = replay
        self.pos = 0
        self.log: List[int] = []
        self.limit = 2_000_000

    # -- primitives -----------------------------------------------------------------
    def choose(self, n: int) -> int:
        """integer in [0, n)"""
        if n <= 1:
            return 0
        if self.replay is not None:
            v = self.replay[self.pos] if self.pos < len(self.replay) else 0
            self.pos += 1
            if v >= n:
                v = n - 1
            elif v < 0:
                v = 0
        else:
            v = self.rng.randrange(n)
            self.pos += 1
        if len(self.log) < self.limit:
            self.log.append(v)
        return v

    def coin(self, p: float) -> bool:
        """True with probability p; the recorded value 0 always means False (unless p >= 1)."""
        if p <= 0:
            return False
        if p >= 1:
            return True
        k = self.choose(10000)
        return k >= 10000 - int(round(p * 10000))

    def uniform(self, a: float, b: float) -> float:
        """float in [a, b]; recorded value 0 means a."""
        k = self.choose(65536)
        return a + (b - a) * (k / 65535.0)

    def loguniform(self, a: float, b: float) -> float:
        import math

        k = self.choose(65536)
        return math.exp(math.log(a) + (math.log(b) - math.log(a)) * (k / 65535.0))

    def randint(self, a: int, b: int) -> int:
        """integer in [a, b]; recorded 0 means a."""
        return a + self.choose(b - a + 1)

    def pick(self, seq):
        return seq[self.choose(len(seq))]

    def weighted(self, weights) -> int:
        """index drawn proportionally to integer weights; index 0 is the quiet one."""
        total = sum(weights)
        k = self.choose(total)
        acc = 0
        for i, w in enumerate(weights):
            acc += w
            if k < acc:
                return i
        return len(weights) - 1

    def sample(self, seq, k):
        seq = list(seq)
        out = []
        for _ in range(min(k, len(seq))):
            out.append(seq.pop(self.choose(len(seq))))
        return out

    def shuffle(self, seq):
        seq = list(seq)
        out = []
        while seq:
            out.append(seq.pop(self.choose(len(seq))))
        return out


class Chooser:
    def __init__(self, seed: Optional[int] = None, replay: Optional[Dict[str, List[int]]] = None):
        assert (seed is None) != (replay is None) or (seed is not None and replay is not None)
        self.seed = seed
        self.replay = replay
        self.streams: Dict[str, Stream] = {}

    def stream(self, name: str) -> Stream:
        s = self.streams.get(name)
        if s is None:
            if self.replay is not None:
                s = Stream(name, None, list(self.replay.get(name, [])))
            else:
                s = Stream(name, random.Random(derive_seed(self.seed, name)), None)
            self.streams[name] = s
        return s

    def dump(self) -> Dict[str, List[int]]:
        """recorded choices, trailing zeros removed (an exhausted replay stream yields zeros)"""
        out = {}
        for name, s in sorted(self.streams.items()):
            log = list(s.log)
            while log and log[-1] == 0:
                log.pop()
            if log:
                out[name] = log
        return out

    def draws(self) -> int:
        return sum(s.pos for s in self.streams.values())
