"""Batch driver: seeded search over simulated runs, minimisation, replay, evidence.

One *case* is ``(cfg, choices)``: ``cfg`` is the generated workload/fault plan (JSON), ``choices``
the per-stream decision lists taken by the scheduler while it ran.  In search mode both derive
from one integer (the run seed).  Exit codes: 0 held / 1 violation / 2 harness error.
"""
from __future__ import annotations

import argparse
import copy
import gc
import hashlib
import json
import os
import subprocess
import sys
import time
import traceback
from dataclasses import dataclass, field
from typing import Any, Dict, List, Optional

from sim.chooser import Chooser, derive_seed
from sim.forkpool import ForkPool, TaskFailure

VERIF = os.path.dirname(os.path.dirname(os.path.abspath(__file__)))
KNOWN_FINDINGS = os.path.join(VERIF, "known_findings.json")


@dataclass
class RunResult:
    digest: str
    nontrivial: bool = False
    violations: List[Dict[str, Any]] = field(default_factory=list)  # {oracle,key,message}
    stats: Dict[str, Any] = field(default_factory=dict)  # steps, sim_s, faults{}, probes{}
    sample: Any = None


class Harness:
    """Interface every check module implements (see checks/*.py)."""

    name = "abstract"
    properties = ()

    def meta(self, prop) -> Dict[str, Any]:
        raise NotImplementedError

    def setup(self, prop, tier):
        pass

    def directed(self, prop, tier):
        """[(name, cfg)] -- run first with fresh seeded schedules; default: /verif/corpus/<prop>/*.json"""
        out = []
        d = os.path.join(VERIF, "corpus", prop)
        if os.path.isdir(d):
            for fn in sorted(os.listdir(d)):
                if fn.endswith(".json"):
                    with open(os.path.join(d, fn), encoding="utf-8") as f:
                        out.append((fn[:-5], json.load(f)))
        return out

    def enumerated(self, prop, tier):
        """iterable of cfgs that are run exactly once each (systematic sweeps), before the random search"""
        return []

    def generate(self, prop, g, tier):
        raise NotImplementedError

    def execute(self, prop, cfg, ch: Chooser, tier) -> RunResult:
        raise NotImplementedError

    def simplify(self, prop, cfg):
        return []

    def chunk_size(self, prop, tier):
        return 8

    def run_wall_limit(self, prop, tier):
        return 240.0


# ---------------------------------------------------------------------------------------------
# running one case
# ---------------------------------------------------------------------------------------------
def run_case(h: Harness, prop, tier, case, want_choices=False):
    """case: {"seed": int, "cfg": optional, "choices": optional, "name": optional}"""
    seed = case["seed"]
    if case.get("choices") is not None:
        ch = Chooser(seed=seed, replay=case["choices"])
    else:
        ch = Chooser(seed=seed)
    cfg = case.get("cfg")
    if cfg is None:
        cfg = h.generate(prop, ch.stream("gen"), tier)
        # generation draws are not part of the run's choice list: cfg is stored explicitly
    cfg = json.loads(json.dumps(cfg))  # what a replay file would hold
    # The cyclic garbage collector runs when allocation counters say so, i.e. at points that depend on what the process did before
    # this run; a finaliser of an abandoned coroutine that runs in the middle of a run may read (tick) the virtual clock.  Collect at
    # the run boundary and keep the collector off while the simulated system runs.
    if getattr(h, "gc_discipline", False):
        gc.collect()
        gc.disable()
        try:
            res = h.execute(prop, copy.deepcopy(cfg), ch, tier)
        finally:
            gc.enable()
    else:
        res = h.execute(prop, copy.deepcopy(cfg), ch, tier)
    out = {
        "seed": seed,
        "name": case.get("name"),
        "digest": res.digest,
        "nontrivial": bool(res.nontrivial),
        "violations": res.violations,
        "stats": res.stats,
        "sample": res.sample,
        "draws": ch.draws(),
    }
    if res.violations or want_choices:
        choices = ch.dump()
        choices.pop("gen", None)
        out["cfg"] = cfg
        out["choices"] = choices
    return out


def _run_chunk(h, prop, tier, cases):
    return [run_case(h, prop, tier, c) for c in cases]


# ---------------------------------------------------------------------------------------------
# minimisation
# ---------------------------------------------------------------------------------------------
def _fails_same(h, prop, tier, cfg, choices, seed, key):
    try:
        r = run_case(h, prop, tier, {"seed": seed, "cfg": cfg, "choices": choices}, want_choices=True)
    except Exception:  # a shrunk configuration may be ill-formed for the harness; not interesting
        return None
    for v in r["violations"]:
        if v["key"] == key:
            return r
    return None


def shrink(h, prop, tier, cfg, choices, seed, key, budget_s):
    """greedy configuration simplification followed by delta debugging on the choice lists"""
    deadline = time.monotonic() + budget_s
    best = _fails_same(h, prop, tier, cfg, choices, seed, key)
    if best is None:
        return None
    cfg, choices = best["cfg"], best["choices"]
    runs = 1
    # 1. try the all-quiet schedule first
    if choices:
        r = _fails_same(h, prop, tier, cfg, {}, seed, key)
        runs += 1
        if r is not None:
            best, choices = r, {}
    # 2. configuration
    progress = True
    while progress and time.monotonic() < deadline:
        progress = False
        for cand in h.simplify(prop, copy.deepcopy(cfg)):
            if time.monotonic() >= deadline:
                break
            r = _fails_same(h, prop, tier, cand, choices, seed, key)
            runs += 1
            if r is not None:
                best, cfg, choices = r, r["cfg"], r["choices"]
                progress = True
                break
    # 3. choice lists, stream by stream
    for name in sorted(choices):
        if time.monotonic() >= deadline:
            break
        lst = list(choices[name])
        # drop the whole stream
        trial = dict(choices)
        trial.pop(name)
        r = _fails_same(h, prop, tier, cfg, trial, seed, key)
        runs += 1
        if r is not None:
            best, choices = r, r["choices"]
            continue
        # truncate tail (binary search for a short failing prefix)
        lo, hi = 0, len(lst)
        while lo < hi and time.monotonic() < deadline:
            mid = (lo + hi) // 2
            trial = dict(choices)
            trial[name] = lst[:mid]
            r = _fails_same(h, prop, tier, cfg, trial, seed, key)
            runs += 1
            if r is not None:
                hi = mid
                best = r
            else:
                lo = mid + 1
        lst = lst[:hi]
        choices = dict(choices)
        choices[name] = lst
        # zero blocks
        size = max(1, len(lst) // 2)
        while size >= 1 and time.monotonic() < deadline:
            i = 0
            while i < len(lst) and time.monotonic() < deadline:
                if any(lst[i : i + size]):
                    cand = lst[:i] + [0] * len(lst[i : i + size]) + lst[i + size :]
                    trial = dict(choices)
                    trial[name] = cand
                    r = _fails_same(h, prop, tier, cfg, trial, seed, key)
                    runs += 1
                    if r is not None:
                        lst = cand
                        choices = trial
                        best = r
                i += size
            if size == 1:
                break
            size //= 2
        if len(lst) > 400:
            continue
    final = _fails_same(h, prop, tier, cfg, choices, seed, key)
    if final is None:  # should not happen: minimisation only keeps failing cases
        return None
    final["shrink_runs"] = runs
    return final


# ---------------------------------------------------------------------------------------------
# known findings
# ---------------------------------------------------------------------------------------------
def load_known(prop):
    try:
        with open(KNOWN_FINDINGS, encoding="utf-8") as f:
            data = json.load(f)
    except FileNotFoundError:
        return []
    return [e for e in data.get("findings", []) if e.get("property") == prop]


# ---------------------------------------------------------------------------------------------
# evidence
# ---------------------------------------------------------------------------------------------
def merge_counts(dst, src):
    for k, v in (src or {}).items():
        dst[k] = dst.get(k, 0) + v


def write_evidence(path, doc):
    tmp = path + ".tmp"
    with open(tmp, "w", encoding="utf-8") as f:
        json.dump(doc, f, indent=1, sort_keys=True, default=str)
        f.write("\n")
    os.replace(tmp, path)


def validate_evidence(path):
    try:
        import jsonschema
    except ImportError:
        return None
    schema_path = "/root/.vp/EVIDENCE.schema.json"
    if not os.path.exists(schema_path):
        schema_path = os.path.join(VERIF, "sim", "EVIDENCE.schema.json")
    if not os.path.exists(schema_path):
        return None
    with open(schema_path, encoding="utf-8") as f:
        schema = json.load(f)
    with open(path, encoding="utf-8") as f:
        doc = json.load(f)
    jsonschema.validate(doc, schema)
    return True


# ---------------------------------------------------------------------------------------------
# main entry
# ---------------------------------------------------------------------------------------------
def _case_stream(h, prop, tier, batch_seed, deadline, directed, max_runs, chunk):
    """yield (task_id, (h, prop, tier, cases)) until the deadline"""
    idx = 0
    task = 0
    # directed configurations first, each with several fresh schedules
    reps = 4 if tier == "quick" else 16
    pending = []
    for rep in range(reps):
        for name, cfg in directed:
            pending.append({"seed": derive_seed(batch_seed, prop, "directed", name, rep), "cfg": cfg, "name": name})
    # directed cases are cheap to ship; run them ahead of the budget check so that they always run
    while pending:
        cases, pending = pending[:chunk], pending[chunk:]
        yield task, (h, prop, tier, cases)
        task += 1
    # systematic sweeps: every enumerated configuration once (bounded by the harness per tier)
    buf = []
    eidx = 0
    for cfg in h.enumerated(prop, tier):
        buf.append({"seed": derive_seed(batch_seed, prop, "enum", eidx), "cfg": cfg, "name": "enum"})
        eidx += 1
        if len(buf) >= chunk:
            yield task, (h, prop, tier, buf)
            task += 1
            buf = []
    if buf:
        yield task, (h, prop, tier, buf)
        task += 1
    while time.monotonic() < deadline and idx < max_runs:
        n = min(chunk, max_runs - idx)
        cases = [{"seed": derive_seed(batch_seed, prop, "run", idx + i), "index": idx + i} for i in range(n)]
        idx += n
        yield task, (h, prop, tier, cases)
        task += 1


def main(h: Harness, prop: str, argv=None):
    ap = argparse.ArgumentParser(prog=f"check {prop}")
    ap.add_argument("--tier", default=os.environ.get("VERIF_TIER", "quick"), choices=["quick", "thorough"])
    ap.add_argument("--replay")
    ap.add_argument("--digests", help="comma separated run seeds: print their digests as JSON and exit (self-test)")
    ap.add_argument("--budget", type=float, default=None)
    ap.add_argument("--max-runs", type=int, default=None)
    ap.add_argument("--workers", type=int, default=int(os.environ.get("VERIF_WORKERS", "0")) or (os.cpu_count() or 4))
    ap.add_argument("--no-shrink", action="store_true")
    ap.add_argument("--evidence-dir", default=os.environ.get("VERIF_EVIDENCE_DIR"), help="write the evidence file elsewhere (development runs against modified trees)")
    ap.add_argument("--verbose", action="store_true")
    args = ap.parse_args(argv)
    tier = args.tier
    batch_seed = int(os.environ.get("VERIF_SEED", "0") or 0)
    t0 = time.monotonic()

    try:
        h.setup(prop, tier)
        if args.replay:
            return _replay(h, prop, tier, args.replay)
        if args.digests:
            seeds = [int(s) for s in args.digests.split(",") if s]
            out = {}
            for s in seeds:
                r = run_case(h, prop, tier, {"seed": s})
                out[str(s)] = r["digest"]
            print("DIGESTS " + json.dumps(out, sort_keys=True))
            return 0
        return _batch(h, prop, tier, batch_seed, args, t0)
    except TaskFailure as e:
        print(f"HARNESS-ERROR property={prop} {e.reason}")
        print(e.detail[-6000:])
        return 2
    except Exception:
        print(f"HARNESS-ERROR property={prop} unexpected exception in the batch driver")
        traceback.print_exc()
        return 2
    finally:
        try:
            h.teardown()
        except Exception:
            pass


def _replay(h, prop, tier, path):
    with open(path, encoding="utf-8") as f:
        rep = json.load(f)
    r = run_case(h, prop, rep.get("tier", tier), {"seed": rep["seed"], "cfg": rep["cfg"], "choices": rep["choices"]})
    want = rep.get("violation", {}).get("key")
    got = [v for v in r["violations"] if want is None or v["key"] == want]
    print(f"replay digest={r['digest']} recorded={rep.get('digest')}")
    if got:
        for v in got:
            print(f"  oracle={v['oracle']} key={v['key']}\n  {v['message']}")
        same = r["digest"] == rep.get("digest")
        print(f"REPRODUCED digest_match={same}")
        print(f"VIOLATION property={prop} replay={path}")
        return 1
    print("NOT-REPRODUCED (no violation with the recorded key on this tree)")
    return 0


def _batch(h, prop, tier, batch_seed, args, t0):
    meta = h.meta(prop)
    default_budget = float(os.environ.get("VERIF_BUDGET_S", "0") or 0) or (meta.get("quick_budget_s", 40.0) if tier == "quick" else meta.get("thorough_budget_s", 600.0))
    budget = args.budget if args.budget is not None else default_budget
    max_runs = args.max_runs if args.max_runs is not None else (meta.get("quick_max_runs", 10**9) if tier == "quick" else meta.get("thorough_max_runs", 10**9))
    deadline = t0 + budget
    directed = h.directed(prop, tier)
    chunk = h.chunk_size(prop, tier)

    agg = {
        "evaluations": 0,
        "digests": set(),
        "all_digests": set(),
        "faults": {},
        "probes": {},
        "steps": 0,
        "sim_s": 0.0,
        "samples": [],
        "violations": {},  # key -> first summary
        "viol_count": 0,
        "known_count": 0,
        "seeds": [],
        "draws": 0,
        "digest_by_seed": {},
        "directed_runs": 0,
        "enumerated_runs": 0,
    }

    open_known_keys = {e["key"] for e in load_known(prop) if e.get("status") == "open"}

    def on_result(task_id, summaries):
        for s in summaries:
            agg["evaluations"] += 1
            agg["all_digests"].add(s["digest"])
            if s["nontrivial"]:
                agg["digests"].add(s["digest"])
            st = s.get("stats") or {}
            merge_counts(agg["faults"], st.get("faults"))
            merge_counts(agg["probes"], st.get("probes"))
            agg["steps"] += st.get("steps", 0)
            agg["sim_s"] += st.get("sim_s", 0.0)
            agg["draws"] += s.get("draws", 0)
            if s.get("name") == "enum":
                agg["enumerated_runs"] += 1
            if s.get("name") is None:
                if len(agg["digest_by_seed"]) < 4096:
                    agg["digest_by_seed"][s["seed"]] = s["digest"]
                if len(agg["samples"]) < 3 and s.get("sample") is not None and s["nontrivial"]:
                    agg["samples"].append({"seed": s["seed"], "case": s["sample"]})
            elif s.get("name") != "enum":
                agg["directed_runs"] += 1
            for v in s["violations"]:
                if v["key"] in open_known_keys:
                    agg["known_count"] += 1
                else:
                    agg["viol_count"] += 1
                k = v["key"]
                if k not in agg["violations"]:
                    agg["violations"][k] = {"v": v, "seed": s["seed"], "cfg": s["cfg"], "choices": s["choices"], "digest": s["digest"], "name": s.get("name")}

    pool = ForkPool(args.workers, task_wall_limit=h.run_wall_limit(prop, tier))
    pool.run(_case_stream(h, prop, tier, batch_seed, deadline, directed, max_runs, chunk), _run_chunk, on_result)
    search_wall = time.monotonic() - t0

    # ---- determinism self-test ---------------------------------------------------------
    det = {"checked": 0, "mismatches": 0, "fresh_interpreter_checked": 0}
    seeds = sorted(agg["digest_by_seed"])
    k = meta.get("det_sample_quick", 6) if tier == "quick" else meta.get("det_sample_thorough", 48)
    step = max(1, len(seeds) // max(1, k))
    sample_seeds = seeds[::step][:k]
    mism = []
    if sample_seeds:
        # (a) again, alone, in a fresh fork with a different position in its chunk
        again = {}

        def on_again(task_id, summaries):
            for s in summaries:
                again[s["seed"]] = s["digest"]

        tasks = [(i, (h, prop, tier, [{"seed": s}])) for i, s in enumerate(sample_seeds)]
        pool.run(tasks, _run_chunk, on_again)
        for s in sample_seeds:
            det["checked"] += 1
            if again.get(s) != agg["digest_by_seed"][s]:
                mism.append(("same-interpreter", s))
        # (b) fresh interpreter under another PYTHONHASHSEED
        env = dict(os.environ)
        env["PYTHONHASHSEED"] = "4711"
        env["VERIF_NO_REEXEC"] = "1"
        cmd = [sys.executable, os.path.join(VERIF, "check.py"), prop, "--tier", tier, "--digests", ",".join(str(s) for s in sample_seeds)]
        try:
            p = subprocess.run(cmd, env=env, capture_output=True, text=True, timeout=600, cwd=VERIF)
            line = [l for l in p.stdout.splitlines() if l.startswith("DIGESTS ")]
            if not line:
                raise TaskFailure("determinism", "fresh-interpreter self-test produced no digests", p.stdout[-2000:] + p.stderr[-4000:])
            fresh = json.loads(line[0][8:])
            for s in sample_seeds:
                det["fresh_interpreter_checked"] += 1
                if fresh.get(str(s)) != agg["digest_by_seed"][s]:
                    mism.append(("fresh-interpreter-other-hashseed", s))
        except subprocess.TimeoutExpired:
            raise TaskFailure("determinism", "fresh-interpreter self-test timed out")
    det["mismatches"] = len(mism)

    # ---- violations: minimise, write replay, confirm in a fresh process ------------------
    known = load_known(prop)
    open_known = {e["key"]: e for e in known if e.get("status") == "open"}
    reported = []
    known_hit = {}
    harness_errors = []
    shrink_budget = 20.0 if tier == "quick" else 90.0
    os.makedirs(os.path.join(VERIF, "replays"), exist_ok=True)
    for key, info in sorted(agg["violations"].items())[:8]:
        if key in open_known:
            known_hit[key] = info
            continue
        final = None
        if not args.no_shrink:
            final = shrink(h, prop, tier, info["cfg"], info["choices"], info["seed"], key, shrink_budget)
        if final is None:
            final = _fails_same(h, prop, tier, info["cfg"], info["choices"], info["seed"], key)
        if final is None:
            harness_errors.append(f"violation {key} of seed {info['seed']} did not reproduce in-process")
            continue
        v = [x for x in final["violations"] if x["key"] == key][0]
        keyhash = hashlib.sha1(key.encode()).hexdigest()[:10]
        path = os.path.join(VERIF, "replays", f"{prop}-{keyhash}.json")
        with open(path, "w", encoding="utf-8") as f:
            json.dump(
                {
                    "property": prop,
                    "harness": h.name,
                    "tier": tier,
                    "seed": info["seed"],
                    "cfg": final["cfg"],
                    "choices": final["choices"],
                    "violation": v,
                    "digest": final["digest"],
                    "found_by": {"batch_seed": batch_seed, "directed": info.get("name")},
                    "shrink_runs": final.get("shrink_runs", 0),
                },
                f,
                indent=1,
                sort_keys=True,
            )
            f.write("\n")
        env = dict(os.environ)
        env["VERIF_NO_REEXEC"] = "1"
        env["PYTHONHASHSEED"] = "0"
        p = subprocess.run([sys.executable, os.path.join(VERIF, "check.py"), prop, "--replay", path], env=env, capture_output=True, text=True, timeout=900, cwd=VERIF)
        if "REPRODUCED digest_match=True" not in p.stdout:
            harness_errors.append(f"replay of {path} in a fresh process did not reproduce exactly:\n{p.stdout[-1500:]}{p.stderr[-1500:]}")
            continue
        reported.append((key, v, path))

    wall = time.monotonic() - t0
    # every open known finding must have been met again, otherwise say so (not an error)
    evidence = {
        "property_id": prop,
        "tier": tier,
        "seed": batch_seed,
        "level": meta["level"],
        "wall_s": round(wall, 3),
        "violations": len(reported),
        "assumptions": meta.get("assumptions", []),
        "coverage": {
            "evaluations": agg["evaluations"],
            "distinct_nontrivial": len(agg["digests"]),
            "distinct_histories_all": len(agg["all_digests"]),
            "rule": meta["rule"],
            "samples": agg["samples"] or [{"note": "no non-trivial random sample in this run"}],
            "directed_runs": agg["directed_runs"],
            "enumerated_runs": agg["enumerated_runs"],
            "random_runs": agg["evaluations"] - agg["directed_runs"] - agg["enumerated_runs"],
            "directed_configs": [n for n, _ in directed],
            "runs_per_hour": int(agg["evaluations"] / max(search_wall, 1e-6) * 3600),
            "search_wall_s": round(search_wall, 2),
            "simulated_seconds": round(agg["sim_s"], 3),
            "steps": agg["steps"],
            "scheduler_draws": agg["draws"],
            "faults_fired": dict(sorted(agg["faults"].items())),
            "probes": dict(sorted(agg["probes"].items())),
            "determinism": det,
            "components_real": meta.get("components_real", []),
            "components_stub": meta.get("components_stub", []),
            "workers": args.workers,
            "batch_seed": batch_seed,
            "violation_keys_seen": sorted(agg["violations"])[:20],
            "violating_runs": agg["viol_count"],
            "known_finding_runs": agg["known_count"],
            "known_findings_met": sorted(known_hit),
            "known_findings_open": sorted(open_known),
        },
    }
    ev_dir = args.evidence_dir or os.path.join(VERIF, "evidence")
    os.makedirs(ev_dir, exist_ok=True)
    ev_path = os.path.join(ev_dir, f"{prop}.json")
    write_evidence(ev_path, evidence)
    try:
        validate_evidence(ev_path)
    except Exception as e:  # jsonschema.ValidationError
        harness_errors.append(f"evidence file does not validate: {e}")

    print(
        f"{prop} tier={tier} seed={batch_seed} runs={agg['evaluations']} distinct_nontrivial={len(agg['digests'])} "
        f"sim_s={agg['sim_s']:.1f} steps={agg['steps']} wall={wall:.1f}s runs/h={evidence['coverage']['runs_per_hour']}"
    )
    if args.verbose:
        for key, info in sorted(agg["violations"].items())[:12]:
            print(f"  seen: {key} seed={info['seed']}: {info['v']['message'][:300]}")
        print("faults:", json.dumps(evidence["coverage"]["faults_fired"]))
        print("probes:", json.dumps(evidence["coverage"]["probes"]))
    if mism:
        print(f"HARNESS-ERROR property={prop} nondeterminism: " + ", ".join(f"{how} seed={s}" for how, s in mism[:5]))
        return 2
    if harness_errors:
        for e in harness_errors:
            print(f"HARNESS-ERROR property={prop} {e}")
        return 2
    for key, e in sorted(open_known.items()):
        if key in known_hit:
            print(f"KNOWN-FINDING: property={prop} {e['what']} [key={key}]")
        else:
            print(f"KNOWN-FINDING: property={prop} {e['what']} [key={key}] (not met in this run)")
    for key, v, path in reported:
        print(f"  oracle={v['oracle']} key={key}\n  {v['message'][:1500]}")
        print(f"VIOLATION property={prop} replay={path}")
    return 1 if reported else 0
