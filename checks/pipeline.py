"""C06 -- throughput counts every operation exactly once, however samples are batched (DESIGN.md 5.5).

Samples are produced by the real executor on 1-3 simulated workers (own wall-clock skew).  The stream
is then shipped and cut into post-processing batches by several seeded schedules (worker wake-up
period/phase, shipment delay FIFO per worker, post-processing period, step-end call) and every cut is
fed to a fresh real SamplePostprocessor / ThroughputCalculator / InMemoryMetricsStore.
"""
from __future__ import annotations

import datetime
import hashlib
import json
import random

from checks import loadgen as lg
from sim import rallyenv
from sim.batch import Harness, RunResult
from sim.loadsim import LoadSim, ScheduleObserver, SimParamSource, SimRunner, history_digest
from sim.simes import Installed, Outcome, SimES
from sim.vclock import EPOCH, Proc, VClock


def generate(g, tier):
    svc = {"kind": "uniform", "lo": g.pick([0.02, 0.05, 0.1]), "hi": g.pick([0.15, 0.3, 0.6])}
    tasks = []
    for i in range(g.pick([1, 1, 2, 3])):
        t = {"name": f"t{i}", "clients": g.pick([1, 1, 2, 3, 4]), "op": "sim-op"}
        if g.coin(0.6):
            t["time-period"] = g.pick([1.5, 3.0, 5.0, 8.0])
            t["warmup-time-period"] = g.pick([0, 0, 0.7, 2.0])
        else:
            t["iterations"] = g.pick([5, 20, 40, 80])
            t["warmup-iterations"] = g.pick([0, 0, 3, 10])
        unit = g.pick(["ops", "docs", "docs"])
        plan = {"task": f"t{i}", "unit": unit, "ret": "dict", "nwire": [1]}
        plan["weights"] = g.pick([[1], [1], [100], [500, 500, 120], [1, 3, 2], [7]])
        if g.coin(0.3):
            interval = g.pick([0.1, 0.25, 1.0])
            if unit == "ops":
                t["target-throughput"] = t["clients"] / interval
                plan["weights"] = [1]
        if g.coin(0.15):
            plan["soft_fail"] = {str(g.randint(0, 10)): 1}
        if g.coin(0.2):
            plan["http_errors"] = sorted(g.sample(range(12), g.pick([1, 2, 4])))
        if g.coin(0.12):
            t["clients"] = 1
            plan["throughput"] = [g.pick([12.5, 300.0]), 7.25, 0.0]
            # (a failed request carries no runner-provided value; what a task that mixes both kinds reports is not specified)
            plan.pop("http_errors", None)
        t["sim"] = plan
        tasks.append(t)
    total = sum(t["clients"] for t in tasks)
    nworkers = min(total, g.pick([1, 1, 2, 3]))
    cuts = sorted(g.sample(range(1, total), nworkers - 1)) if nworkers > 1 else []
    b = [0] + cuts + [total]
    return {
        "tasks": tasks,
        "service": svc,
        "jitter": g.pick([0, 1e-6, 2e-5]),
        "rand": g.choose(1 << 30),
        "tie_window": 0,
        "complete_at": g.pick([0.25, 0.6, 1.2, 2.5]) if g.coin(0.25) else None,
        "layout": [list(range(b[i], b[i + 1])) for i in range(nworkers)],
        "procs": [{"perf_origin": g.pick([0.0, 555.5]), "wall_skew": g.pick([0.0, 0.0, 0.0, 0.4, -1.3, 4.0])} for _ in range(nworkers)],
        "ncuts": 6 if tier == "quick" else 12,
    }


class PipelineHarness(Harness):
    name = "pipeline"
    properties = ("C06",)

    def meta(self, prop):
        return {
            "level": "exploration",
            "rule": "cases = a sample stream produced by the real executor (1-3 tasks, 1-4 clients each, time/iteration based, warm-up, weights in ops/docs, failed "
            "requests, runner-provided throughput) on 1-3 workers with wall-clock skew, cut by 6 (quick) / 12 (thorough) seeded schedules of worker wake-ups, "
            "shipment delays and post-processing ticks, always including 'one call' and 'one sample per call'; non-trivial = some task saw >= 3 calls of which one "
            "(not the first) finished no bucket; distinct = distinct digests of (stream, cut schedules)",
            "assumptions": [
                "the start of a task is what the calculator defines it to be: absolute time minus time period of the earliest sample of the first batch",
                "operation counts are integers; the count behind a reported value is recovered as value x elapsed time",
                "shipping/cutting is applied to the finished stream (the pipeline does not feed back into load generation)",
            ],
            "components_real": ["driver.SamplePostprocessor", "driver.ThroughputCalculator (+TaskStats)", "driver.Sampler / Sample", "metrics.InMemoryMetricsStore", "executor and client stack producing the samples (as C04)"],
            "components_stub": ["worker wake-up / UpdateSamples shipping / post-processing timer (seeded cut schedule)", "Elasticsearch (SimES)"],
            "quick_budget_s": 40.0,
            "thorough_budget_s": 600.0,
        }

    def chunk_size(self, prop, tier):
        return 6

    def generate(self, prop, g, tier):
        return generate(g, tier)

    def simplify(self, prop, cfg):
        for c in lg.HARNESS.simplify("C04", cfg):
            c["ncuts"] = cfg["ncuts"]
            yield c
        for i, t in enumerate(cfg["tasks"]):
            if t.get("time-period", 0) > 1.5:
                c = json.loads(json.dumps(cfg))
                c["tasks"][i]["time-period"] = t["time-period"] / 2
                yield c
            if t.get("iterations", 0) > 5:
                c = json.loads(json.dumps(cfg))
                c["tasks"][i]["iterations"] = t["iterations"] // 2
                yield c
        if cfg["ncuts"] > 2:
            c = json.loads(json.dumps(cfg))
            c["ncuts"] -= 1
            yield c

    def execute(self, prop, cfg, ch, tier):
        from esrally import config, metrics
        from esrally.driver import driver, runner
        from esrally.track import params as track_params

        clock = VClock(noise_stream=ch.stream("clock-noise"), jitter=cfg.get("jitter", 0))
        svc_stream = ch.stream("service-time")
        svc = cfg["service"]
        http_errors = {t["name"]: set(t["sim"].get("http_errors") or []) for t in cfg["tasks"]}

        def policy(w):
            d = svc_stream.uniform(svc["lo"], svc["hi"])
            parts = w.path.strip("/").split("/")
            if parts[0] == "_sim" and len(parts) >= 4 and int(parts[3]) in http_errors.get(parts[1], ()):
                # a failed request is a sample with 0 operations in unit "ops", whatever the unit of the task is
                return Outcome(delay=d, kind="status", status=500)
            return Outcome(delay=d)

        simes = SimES(clock, policy)
        violations = []

        def bad(oracle, key, msg):
            if len(violations) < 12:
                violations.append({"oracle": oracle, "key": f"{oracle}:{key}", "message": msg})

        with rallyenv.saved_registries(), rallyenv.patched_time(clock), Installed(simes), ScheduleObserver(clock):
            random.seed(cfg.get("rand", 0))
            SimParamSource.clock = clock
            SimRunner.clock = clock
            runner.register_default_runners(None)
            runner.register_runner("sim-op", SimRunner(), async_runner=True)
            track_params.register_param_source_for_name("sim-params", SimParamSource)
            sim = LoadSim(ch, clock)
            track = sim.build_track(lg.track_spec(cfg))
            leaf_tasks = track.challenges[0].schedule[0].tasks
            total_clients = sum(t.clients for t in leaf_tasks)
            allocs = []
            gi = 0
            for t in leaf_tasks:
                for ci in range(t.clients):
                    allocs.append((gi, driver.TaskAllocation(t, ci, gi, total_clients)))
                    gi += 1
            for wi, group in enumerate(cfg["layout"]):
                p = cfg["procs"][wi]
                sim.add_worker(track, Proc(f"worker{wi}", perf_origin=p["perf_origin"], wall_skew=p["wall_skew"]), [a for a in allocs if a[0] in group], group)
            if cfg.get("complete_at") is not None:
                # the task is ended from outside (completed-by of a sibling): clients stop wherever they are, also inside their warm-up
                sim.at(cfg["complete_at"], lambda: [w.complete.set() for w in sim.workers])
            sim.run()
            errors = [w.error for w in sim.workers if w.error is not None]
            for e in errors:
                bad("run", f"raised:{type(e).__name__}", f"load generation raised: {e!r}")

            # per worker: samples in creation order with their virtual creation instant
            streams = []
            for w in sim.workers:
                origin = w.proc.perf_origin
                streams.append([(s.request_start + s.service_time - origin, s) for s in w.samples])
            end_of_run = clock.now
            nsamples = sum(len(s) for s in streams)

            cutter = ch.stream("cuts")
            probes = {"calls_without_bucket": 0, "out_of_order_arrival": 0, "runner_throughput": 0, "warmup_to_normal": 0, "cut_one_call": 0, "cut_one_per_call": 0, "cut_random": 0}
            nontrivial = False
            cut_desc = []
            mcfg = config.Config()
            mcfg.add(config.Scope.application, "system", "env.name", "sim")
            mcfg.add(config.Scope.application, "track", "params", {})

            for ci in range(cfg["ncuts"]):
                # ---- build the batches of this cut schedule ------------------------------------
                if ci == 0:
                    kind = "one-call"
                    batches = [[s for st in streams for _, s in st]]
                    probes["cut_one_call"] += 1
                elif ci == 1:
                    kind = "one-per-call"
                    merged = sorted([(t, wi, i, s) for wi, st in enumerate(streams) for i, (t, s) in enumerate(st)], key=lambda x: (x[0], x[1], x[2]))
                    batches = [[s] for _, _, _, s in merged]
                    probes["cut_one_per_call"] += 1
                else:
                    kind = "timers"
                    probes["cut_random"] += 1
                    arrivals = []  # (arrival time, worker, seq, [samples])
                    for wi, st in enumerate(streams):
                        period = cutter.pick([0.1, 0.5, 0.5, 1.0, 5.0])
                        t = cutter.uniform(0, period)
                        i = 0
                        last_arrival = 0.0
                        seq = 0
                        while i < len(st):
                            late = cutter.pick([0, 0, 0.01, 0.3])
                            shipment = []
                            while i < len(st) and st[i][0] <= t + late:
                                shipment.append(st[i][1])
                                i += 1
                            if shipment:
                                arr = max(last_arrival, t + late + cutter.pick([0.0005, 0.002, 0.05, 0.4]))
                                last_arrival = arr
                                arrivals.append((arr, wi, seq, shipment))
                                seq += 1
                            t += period
                            if t > end_of_run + period + 1:
                                # the join point drains whatever is left
                                shipment = [s for _, s in st[i:]]
                                i = len(st)
                                if shipment:
                                    arr = max(last_arrival, end_of_run + 0.01)
                                    arrivals.append((arr, wi, seq, shipment))
                    arrivals.sort(key=lambda a: (a[0], a[1], a[2]))
                    q = cutter.pick([0.2, 0.3, 1.0, 1.0, 3.0, 30.0])
                    tick = cutter.uniform(0, q)
                    batches = []
                    cur = []
                    for arr, wi, seq, shipment in arrivals:
                        while arr > tick:
                            if cur:
                                batches.append(cur)
                                cur = []
                            tick += q
                        cur += shipment
                    if cur:
                        batches.append(cur)
                cut_desc.append((kind, [len(b) for b in batches][:40]))

                # ---- feed a fresh real pipeline ------------------------------------------------
                store = metrics.InMemoryMetricsStore(mcfg)
                store.open("race-1", datetime.datetime(2024, 1, 1), "simtrack", "c", "external", create=True)
                pp = driver.SamplePostprocessor(store, 1, {}, {})
                calc = pp.throughput_calculator
                emitted = []  # per call: {task: [tuples]}
                orig_calc = calc.calculate

                def recording(samples, bucket_interval_secs=1, _orig=orig_calc):
                    r = _orig(samples, bucket_interval_secs)
                    emitted.append(r)
                    return r

                calc.calculate = recording
                docs_before = 0
                delivered = {}  # task name -> list of (call, abs_time, ops, sample)
                first_batch_of_task = {}
                state = {}  # task -> dict(start, max_prev, last_N, last_type, seen_normal)
                for k, batch in enumerate(batches):
                    n_before = len(emitted)
                    # safety valve (not the oracle): a carry-over larger than everything delivered so far means samples are
                    # being duplicated; feeding on would double it with every call and never finish
                    carried = max((len(getattr(ts, "unprocessed", ())) for ts in getattr(calc, "task_stats", {}).values()), default=0)
                    if carried > sum(len(b) for b in batches[:k]):
                        bad("conservation", "counted-more-than-once", f"cut {ci} ({kind}) before call {k}: the calculator carries {carried} unprocessed samples over, only {sum(len(b) for b in batches[:k])} samples have been delivered; batch sizes {[len(b) for b in batches][:12]}")
                        break
                    try:
                        pp(list(batch))
                    except Exception as e:  # noqa
                        bad("run", f"postprocessor-raised:{type(e).__name__}", f"cut {ci} ({kind}) call {k}: post-processing raised {e!r}")
                        break
                    if len(emitted) != n_before + 1:
                        continue
                    result = emitted[-1]
                    new_docs = [d for d in store.docs[docs_before:] if d["name"] == "throughput"]
                    docs_before = len(store.docs)
                    by_task = {}
                    for s in batch:
                        by_task.setdefault(s.task.name, []).append(s)
                    ntuples = sum(len(v) for v in result.values())
                    if len(new_docs) != ntuples:
                        bad("store", "throughput-records", f"cut {ci} ({kind}) call {k}: calculator returned {ntuples} values, {len(new_docs)} throughput records stored")
                    for task, tuples in result.items():
                        tname = task.name
                        new = by_task.get(tname, [])
                        st = state.setdefault(tname, {"start": None, "max_prev": None, "last_N": 0, "last_type": None, "calls": 0, "empty_calls": 0, "normal_value": False})
                        st["calls"] += 1
                        hist = delivered.setdefault(tname, [])
                        if any(s.throughput is not None for s in new):
                            probes["runner_throughput"] += 1
                            want = sorted((s.absolute_time, s.relative_time, s.sample_type, s.throughput, f"{s.total_ops_unit}/s") for s in new)
                            if sorted(tuples) != want:
                                bad("pass-through", "changed", f"cut {ci} ({kind}) call {k} task {tname}: runner-provided throughput values {want[:3]} were reported as {sorted(tuples)[:3]}")
                            for s in new:
                                hist.append((k, s.absolute_time, s.total_ops, s))
                            if any(t[2] == metrics.SampleType.Normal for t in tuples):
                                st["normal_value"] = True
                            continue
                        if st["start"] is None:
                            first = min(new, key=lambda s: s.absolute_time)
                            st["start"] = first.absolute_time - first.time_period
                        if st["max_prev"] is not None and any(s.absolute_time < st["max_prev"] for s in new):
                            probes["out_of_order_arrival"] += 1
                        for s in new:
                            hist.append((k, s.absolute_time, s.total_ops, s))
                        if not tuples and st["calls"] > 1:
                            st["empty_calls"] += 1
                            probes["calls_without_bucket"] += 1
                        unit_of = {s.total_ops_unit for s in new} | {h[3].total_ops_unit for h in hist}
                        for T, rel, stype, value, unit in tuples:
                            ctx = f"cut {ci} ({kind}) call {k} task {tname} value at {T - EPOCH:.6f}"
                            if value < 0:
                                bad("value", "negative", f"{ctx}: throughput {value}")
                            if unit not in {f"{u}/s" for u in unit_of}:
                                bad("value", "unit", f"{ctx}: unit {unit}, samples are in {sorted(unit_of)}")
                            # a value is reported with a sample (same point in time): it carries that sample's unit
                            at = {h[3].total_ops_unit for h in hist if h[3].absolute_time == T}
                            if at and unit not in {f"{u}/s" for u in at}:
                                bad("value", "unit-of-its-sample", f"{ctx}: unit {unit}, but the sample it is reported with is in {sorted(at)} (the task's samples are in {sorted(unit_of)})")
                            if st["last_type"] == metrics.SampleType.Normal and stype == metrics.SampleType.Warmup:
                                bad("value", "type-regression", f"{ctx}: sample type went back from normal to warm-up")
                            if st["last_type"] == metrics.SampleType.Warmup and stype == metrics.SampleType.Normal:
                                probes["warmup_to_normal"] += 1
                            st["last_type"] = stype
                            if stype == metrics.SampleType.Normal:
                                st["normal_value"] = True
                            prev_max = max([h[1] for h in hist if h[0] < k], default=None)
                            interval = max(T, prev_max if prev_max is not None else T) - st["start"]
                            if interval <= 0:
                                bad("conservation", "non-positive-interval", f"{ctx}: value reported with elapsed time {interval}")
                                continue
                            c = value * interval
                            N = round(c)
                            if abs(c - N) > 1e-6 * max(1.0, abs(c)):
                                bad("conservation", "not-a-count", f"{ctx}: throughput {value} x elapsed {interval:.6f}s = {c}, not an operation count")
                                continue
                            lower = sum(h[2] for h in hist if h[1] < T)
                            upper = sum(h[2] for h in hist if h[0] < k or h[1] <= T)
                            if N > upper:
                                bad("conservation", "counted-more-than-once", f"{ctx}: {N} operations behind the reported value, only {upper} operations have been delivered up to this sample ({sum(h[2] for h in hist)} in total so far); batch sizes {[len(b) for b in batches][:12]}")
                            elif N < lower:
                                bad("conservation", "operations-dropped", f"{ctx}: {N} operations behind the reported value, but {lower} operations completed strictly before it had been delivered; batch sizes {[len(b) for b in batches][:12]}")
                            if N < st["last_N"]:
                                bad("conservation", "count-decreased", f"{ctx}: cumulative count fell from {st['last_N']} to {N}")
                            st["last_N"] = N
                        st["max_prev"] = max([h[1] for h in hist])
                calc.calculate = orig_calc
                # every task with a normal sample (and positive elapsed time) has a normal value
                for tname, hist in delivered.items():
                    st = state.get(tname)
                    if st is None:
                        continue
                    if any(h[3].sample_type == metrics.SampleType.Normal for h in hist) and not st["normal_value"]:
                        bad("value", "no-normal-value", f"cut {ci} ({kind}) task {tname}: {len(hist)} samples incl. normal ones but no normal-type throughput value; batch sizes {[len(b) for b in batches][:12]}")
                    if st["calls"] >= 3 and st["empty_calls"] >= 1:
                        nontrivial = True

        digest = history_digest(simes, {"cuts": cut_desc})
        sample = {"tasks": [{k: v for k, v in t.items() if k != "sim"} for t in cfg["tasks"]], "layout": cfg["layout"], "samples": nsamples, "cuts": [(k, b[:10]) for k, b in cut_desc[:4]]}
        probes = {k: int(v) for k, v in probes.items()}
        return RunResult(digest=digest, nontrivial=nontrivial, violations=violations, stats={"steps": sim.steps, "sim_s": clock.now, "faults": {}, "probes": probes}, sample=sample)


HARNESS = PipelineHarness()
