"""C12 -- cluster engine start/stop is all-or-nothing across hosts and reports failures (DESIGN.md 5.9).

Real MechanicActor, Dispatcher, NodeMechanicActor, Mechanic, mechanic.create, node-local config
loading, in-memory metrics store and provisioner.cleanup on scratch directories, on the Thespian
model (convention membership: remote daemons join before/after the dispatcher subscribes and may
leave).  Supplier, provisioner.prepare and launcher are recording stubs that may fail per plan.
"""
from __future__ import annotations

import hashlib
import json
import os
import shutil
import tempfile

from sim import rallyenv
from sim.actors import Host, SimActorSystem, SimHang
from sim.batch import Harness, RunResult
from sim.vclock import VClock

LOCAL = "127.0.0.1"
REMOTES = ["10.1.0.2", "10.1.0.3", "10.1.0.4"]


class Recorder:
    def __init__(self):
        self.events = []  # (vtime, kind, host ip, detail)


class StubNode:
    def __init__(self, node_name, ip):
        self.node_name = node_name
        self.ip = ip
        self.pid = 1
        self.telemetry = None


def gen(g, tier):
    nremote = g.pick([0, 1, 1, 2, 2, 3])
    remotes = REMOTES[:nremote]
    ips = ([LOCAL] if (g.coin(0.7) or not remotes) else []) + remotes
    targets = []
    for ip in ips:
        for _ in range(g.pick([1, 1, 2, 3])):
            targets.append(f"{ip}:{g.pick([9200, 9200, 19200])}")
    targets = g.shuffle(targets)
    cfg = {
        "targets": targets,
        "remotes": [{"ip": ip, "join": g.pick(["before", "before", "after", "after", "late"]), "join_delay": g.pick([0.01, 0.3, 2.0])} for ip in remotes],
        "external": g.coin(0.12),
        "preserve": g.coin(0.3),
        "knobs": {"stall_p": g.pick([0, 0, 0.05, 0.15]), "tie_window": g.pick([0, 1e-3])},
        "fault": None,
        "stop": g.pick(["stop", "stop", "stop", "exit"]),
    }
    if g.coin(0.25):
        cfg["alias"] = sorted(g.sample(range(len(targets)), g.randint(1, len(targets))))
    k = g.weighted([5, 3, 3, 1])
    if k == 3 and remotes and not cfg["external"]:
        # the convention leader announces a daemon that has already checked in once more (a member that was considered lost for a
        # moment and registered again): nothing may be started twice
        cfg["fault"] = {"kind": "duplicate-join", "ip": g.pick(remotes), "delay": g.pick([0.0, 0.001, 0.05, 0.5])}
        for r in cfg["remotes"]:
            if r["ip"] != cfg["fault"]["ip"] and g.coin(0.7):
                r["join"] = "late"
                break
    elif k == 1 and not cfg["external"]:
        hostips = sorted({t.split(":")[0] for t in targets})
        cfg["fault"] = {"kind": "start-fails", "ip": g.pick(hostips), "how": g.pick(["launcher", "provisioner", "supplier"])}
    elif k == 2 and remotes and not cfg["external"]:
        cfg["fault"] = {"kind": "daemon-leaves", "ip": g.pick(remotes), "when": g.pick(["while-waiting", "after-joined", "after-start-sent", "after-started", "after-stopped"]), "delay": g.pick([0.0, 0.001, 0.05, 0.5])}
        if cfg["fault"]["when"] == "after-stopped":
            # the daemon leaves right after its node mechanic has confirmed the stop, possibly while other hosts are still stopping
            cfg["stop"] = "stop"
            cfg["knobs"]["stall_p"] = g.pick([0.05, 0.15, 0.3])
        if cfg["fault"]["when"] == "while-waiting":
            # the daemon leaves after it has checked in while another one is still awaited
            for r in cfg["remotes"]:
                if r["ip"] != cfg["fault"]["ip"]:
                    r["join"] = "late"
                    break
    return cfg


class MechanicHarness(Harness):
    gc_discipline = True  # see sim/batch.py run_case
    name = "mechanic"
    properties = ("C12",)

    def __init__(self):
        self.home = None

    def meta(self, prop):
        return {
            "level": "fault_enumeration",
            "rule": "cases = target host list (1-4 hosts incl. up to 3 remote Rally daemons, 1-3 nodes per host, shuffled) x join order/delay of the daemons relative to the "
            "dispatcher's subscription x external/preserve flags x at most one fault (node start raising in supplier/provisioner/launcher on one host; a daemon leaving "
            "while awaited / after it joined / after StartNodes was sent / after its nodes started) x stop by StopEngine or by ActorExitRequest, under seeded message delays "
            "and stalls; a systematic sweep covers every fault kind x host position of fixed 2- and 3-host clusters; non-trivial = at least 2 hosts or a fault; distinct = "
            "distinct digests of the message history",
            "assumptions": [
                "Thespian model as in C01; a departed daemon's actors vanish and their local parents hear ChildActorExited (possibly twice)",
                "supplier, provisioner.prepare and launcher are stubs: what is checked is the actor protocol around them",
                "liveness bound: 4 x longest timer + 120 s + 4 x largest delay drawn, after the last fault",
            ],
            "components_real": ["mechanic.MechanicActor, Dispatcher, NodeMechanicActor, Mechanic, create, to_ip_port/nodes_by_host", "actor.RallyActor helpers (transition_when_all_children_responded, send_to_children_and_transition)", "config.auto_load_local_config", "metrics.InMemoryMetricsStore", "provisioner.cleanup on real scratch directories"],
            "components_stub": ["Thespian (sim.actors)", "race control (external endpoint)", "supplier.create, provisioner.local(...).prepare, launcher.ProcessLauncher (recording stubs)", "team.load_car (load_team returns no car)"],
            "quick_budget_s": 35.0,
            "thorough_budget_s": 420.0,
        }

    def setup(self, prop, tier):
        self.home = tempfile.mkdtemp(prefix="esrally-verif-mech-")

    def teardown(self):
        if self.home:
            shutil.rmtree(self.home, ignore_errors=True)

    def process_home(self):
        from esrally import log

        home = os.path.join(self.home, f"p{os.getpid()}")
        os.environ["RALLY_HOME"] = home
        if not os.path.isdir(home):
            os.makedirs(home)
            log.install_default_log_config()
        return home

    def chunk_size(self, prop, tier):
        return 25

    def generate(self, prop, g, tier):
        return gen(g, tier)

    def enumerated(self, prop, tier):
        clusters = [
            ([f"{LOCAL}:9200", f"{REMOTES[0]}:9200"], [REMOTES[0]]),
            ([f"{REMOTES[0]}:9200", f"{LOCAL}:9200", f"{REMOTES[1]}:9200", f"{REMOTES[0]}:19200"], [REMOTES[0], REMOTES[1]]),
        ]
        for targets, remotes in clusters:
            for joins in (["before"] * len(remotes), ["after"] * len(remotes), (["before", "late"] * 2)[: len(remotes)]):
                base = {"targets": targets, "remotes": [{"ip": ip, "join": j, "join_delay": 0.3} for ip, j in zip(remotes, joins)], "external": False, "preserve": False, "knobs": {"stall_p": 0.05, "tie_window": 0}, "fault": None, "stop": "stop"}
                yield base
                for ip in sorted({t.split(":")[0] for t in targets}):
                    for how in ("launcher", "provisioner", "supplier"):
                        for stop in ("stop", "exit"):
                            c = json.loads(json.dumps(base))
                            c["fault"] = {"kind": "start-fails", "ip": ip, "how": how}
                            c["stop"] = stop
                            yield c
                for ip in remotes:
                    for delay in (0.0, 0.05):
                        for stall in (0.15, 0.4):
                            c = json.loads(json.dumps(base))
                            c["fault"] = {"kind": "daemon-leaves", "ip": ip, "when": "after-stopped", "delay": delay}
                            c["knobs"] = dict(c["knobs"], stall_p=stall)
                            yield c
                for ip in remotes:
                    for delay in (0.0, 0.05, 0.5):
                        c = json.loads(json.dumps(base))
                        c["fault"] = {"kind": "duplicate-join", "ip": ip, "delay": delay}
                        for r in c["remotes"]:
                            if r["ip"] != ip:
                                r["join"] = "late"
                                break
                        yield c
                for ip in remotes:
                    for when in ("while-waiting", "after-joined", "after-start-sent", "after-started"):
                        for delay in (0.0, 0.05):
                            c = json.loads(json.dumps(base))
                            c["fault"] = {"kind": "daemon-leaves", "ip": ip, "when": when, "delay": delay}
                            if when == "while-waiting":
                                for r in c["remotes"]:
                                    if r["ip"] != ip:
                                        r["join"] = "late"
                            yield c
        yield {"targets": [f"{LOCAL}:9200", f"{REMOTES[0]}:9200"], "remotes": [{"ip": REMOTES[0], "join": "before", "join_delay": 0.1}], "external": True, "preserve": False, "knobs": {"stall_p": 0, "tie_window": 0}, "fault": None, "stop": "stop"}

    def simplify(self, prop, cfg):
        def cp():
            return json.loads(json.dumps(cfg))

        if len(cfg["targets"]) > 1:
            for i in range(len(cfg["targets"])):
                c = cp()
                ip = c["targets"][i].split(":")[0]
                del c["targets"][i]
                if c["fault"] and c["fault"].get("ip") == ip and not any(t.startswith(ip + ":") for t in c["targets"]):
                    continue
                c["remotes"] = [r for r in c["remotes"] if any(t.startswith(r["ip"] + ":") for t in c["targets"])]
                yield c
        for k in ("stall_p", "tie_window"):
            if cfg["knobs"][k]:
                c = cp()
                c["knobs"][k] = 0
                yield c
        for i, r in enumerate(cfg["remotes"]):
            if r["join"] != "before":
                c = cp()
                c["remotes"][i]["join"] = "before"
                yield c
        if cfg["preserve"]:
            c = cp()
            c["preserve"] = False
            yield c

    # ------------------------------------------------------------------------------------
    def execute(self, prop, cfg, ch, tier):
        import datetime

        import thespian.actors as th
        from esrally import actor, config, metrics
        from esrally.mechanic import launcher, mechanic, provisioner, supplier
        from esrally.utils import opts

        home = self.process_home()
        run_dir = tempfile.mkdtemp(prefix="run-", dir=home)
        violations = []

        def bad(oracle, key, msg):
            if len(violations) < 12:
                violations.append({"oracle": oracle, "key": f"{oracle}:{key}", "message": msg})

        clock = VClock()
        hosts = [Host("coordinator", {"coordinator": True, "ip": LOCAL})]
        for r in cfg["remotes"]:
            h = Host(r["ip"], {"coordinator": False, "ip": r["ip"]})
            h.joined = r["join"] == "before"
            hosts.append(h)
        system = SimActorSystem(clock, ch, hosts, dict(cfg["knobs"], max_steps=60_000, hang_grace=60.0))
        rec = Recorder()
        fault = cfg["fault"]
        fired = {}
        state = {"start_sent_to": set(), "nodes_started_from": set(), "subscribed": False}

        def cur_ip():
            c = system.current
            return c.host.capabilities.get("ip") if c is not None and c.host is not None else None

        # ---- stubs ------------------------------------------------------------------------
        def fail(how):
            if fault and fault["kind"] == "start-fails" and fault["how"] == how and cur_ip() == fault["ip"]:
                fired["node_start_raises"] = fired.get("node_start_raises", 0) + 1
                rec.events.append((clock.now, "start-failed", cur_ip(), how))
                raise RuntimeError(f"simulated {how} failure on {cur_ip()}")

        def supplier_create(cfg_, sources, distribution, car, plugins):
            def supply():
                fail("supplier")
                return {"elasticsearch": "/nonexistent/es.tar.gz"}

            return supply

        class StubProvisioner:
            def __init__(self, node_name, ip):
                self.node_name = node_name
                self.ip = ip

            def prepare(self, binaries):
                fail("provisioner")
                root = os.path.join(run_dir, self.ip.replace(".", "_"), self.node_name)
                install = os.path.join(root, "install")
                data = os.path.join(root, "data")
                os.makedirs(install, exist_ok=True)
                os.makedirs(data, exist_ok=True)
                with open(os.path.join(data, "segment"), "w") as f:
                    f.write("x")
                rec.events.append((clock.now, "prepared", self.ip, self.node_name))
                return provisioner.NodeConfiguration("tar", ["17"], True, self.ip, self.node_name, root, install, [data])

        def provisioner_local(cfg_, car, plugins, ip, http_port, all_node_ips, all_node_names, target_root, node_name):
            return StubProvisioner(node_name, ip)

        class StubLauncher:
            def __init__(self, cfg_):
                pass

            def start(self, node_configs):
                fail("launcher")
                nodes = []
                for nc in node_configs:
                    rec.events.append((clock.now, "node-started", nc.ip, nc.node_name))
                    nodes.append(StubNode(nc.node_name, nc.ip))
                return nodes

            def stop(self, nodes, metrics_store):
                for n in nodes:
                    rec.events.append((clock.now, "node-stopped", n.ip, n.node_name))

        orig_flush = metrics.InMemoryMetricsStore.flush

        def flush(self_, refresh=True):
            rec.events.append((clock.now, "flush", cur_ip(), bool(refresh)))
            return orig_flush(self_, refresh)

        # system results: the race record is looked up, the node's results are added and stored (once per node).  The race and results
        # stores are recording stand-ins (StubRace.add_results assigns, like metrics.Race.add_results); calculate_system_results is real
        results_of = {}
        keep_alive = []
        orig_calc = metrics.calculate_system_results

        def calc_system_results(store, node_name):
            res = orig_calc(store, node_name)
            results_of[id(res)] = node_name
            keep_alive.append(res)
            return res

        class StubRace:
            results = None

            def add_results(self, results):
                self.results = results

        class StubRaceStore:
            def find_by_race_id(self, race_id):
                return StubRace()

        class StubResultsStore:
            def store_results(self, race):
                rec.events.append((clock.now, "results-stored", cur_ip(), results_of.get(id(race.results))))

        from esrally.utils import net as rally_net

        orig_resolve = rally_net.resolve

        def resolve(name):
            if name and name.startswith("node-"):
                return name[5:].replace("-", ".")
            return orig_resolve(name)

        saved_metrics = (metrics.calculate_system_results, metrics.race_store, metrics.results_store)
        saved = (supplier.create, provisioner.local, launcher.ProcessLauncher, mechanic.load_team, metrics.InMemoryMetricsStore.flush)
        replies = []
        deliveries = []

        def on_deliver(cell, msg, sender):
            cname, mname = cell.cls.__name__, type(msg).__name__
            deliveries.append((clock.now, cname, mname))
            if cname == "NodeMechanicActor" and mname == "StartNodes":
                state["start_sent_to"].add(msg.ip)
                if fault and fault["kind"] == "daemon-leaves" and fault["when"] == "after-start-sent" and msg.ip == fault["ip"] and "left" not in state:
                    state["left"] = True
                    system.call_at(clock.now + fault["delay"], lambda: leave(fault["ip"]))
            if cname == "MechanicActor" and mname == "NodesStopped" and fault and fault["kind"] == "daemon-leaves" and fault["when"] == "after-stopped" and "left" not in state:
                src = system.cell_of(sender)
                if src is not None and src.host is not None and src.host.capabilities.get("ip") == fault["ip"]:
                    # (only once every node mechanic of that daemon has confirmed: what a daemon that dies in the middle of a stop
                    # means is not part of the property)
                    state["stopped_from_ip"] = state.get("stopped_from_ip", 0) + 1
                    if state["stopped_from_ip"] == len({t for t in cfg["targets"] if t.split(":")[0] == fault["ip"]}):
                        state["left"] = True
                        system.call_at(clock.now + fault["delay"], lambda: leave(fault["ip"]))
            if cname == "Dispatcher" and mname == "ActorSystemConventionUpdate" and msg.remoteAdded:
                ip = msg.remoteCapabilities.get("ip")
                if fault and fault["kind"] == "duplicate-join" and ip == fault["ip"] and "dup" not in state:
                    state["dup"] = True
                    fired["duplicate_join_announced"] = 1
                    system.call_at(clock.now + fault["delay"], lambda c=cell, i=ip: system._convention_update(c, system.hosts[i], True))
                if fault and fault["kind"] == "daemon-leaves" and fault["when"] in ("after-joined", "while-waiting") and ip == fault["ip"] and "left" not in state:
                    state["left"] = True
                    system.call_at(clock.now + fault["delay"], lambda: leave(fault["ip"]))

        def leave(ip):
            if system.hosts[ip].joined:
                state["left_at"] = clock.now
                state["engine_started_before_leave"] = any(type(m).__name__ == "EngineStarted" for m in system.replies) or any(r[1] == "EngineStarted" for r in replies)
                system.host_leave(ip)

        system.on_deliver = on_deliver

        def on_send(src, dst, msg):
            if type(msg).__name__ == "EngineStopped" and src is not None and src.cls is not None and src.cls.__name__ == "MechanicActor":
                state.setdefault("engine_stopped_sent", (clock.now, sum(1 for d in deliveries if d[1] == "MechanicActor" and d[2] == "NodesStopped")))

        system.on_send = on_send
        outcome = {"started": None, "stopped": None, "failure": None}
        try:
            supplier.create = supplier_create
            provisioner.local = provisioner_local
            launcher.ProcessLauncher = StubLauncher
            mechanic.load_team = lambda cfg_, external: (None, [])
            metrics.InMemoryMetricsStore.flush = flush
            metrics.calculate_system_results = calc_system_results
            rally_net.resolve = resolve
            metrics.race_store = lambda cfg_: StubRaceStore()
            metrics.results_store = lambda cfg_: StubResultsStore()
            with rallyenv.patched_time(clock):
                rcfg = config.Config()
                if not rcfg.config_present():
                    rcfg.install_default_config()
                rcfg.load_config(auto_upgrade=True)
                A = config.Scope.application
                rcfg.add(A, "system", "time.start", datetime.datetime(2024, 1, 1, 12, 0, 0))
                rcfg.add(A, "system", "race.id", "race-mech-1")
                rcfg.add(A, "system", "install.id", "race-mech-1")
                # some targets are written as a host name that resolves to the IP (the same machine may be named in two ways)
                written = [f"node-{t.split(':')[0].replace('.', '-')}:{t.split(':')[1]}" if i in (cfg.get("alias") or []) else t for i, t in enumerate(cfg["targets"])]
                hosts_opt = opts.TargetHosts(",".join(written))
                rcfg.add(A, "client", "hosts", hosts_opt)
                rcfg.add(A, "client", "options", opts.ClientOptions("timeout:60", target_hosts=hosts_opt))
                rcfg.add(A, "mechanic", "car.names", ["defaults"])
                rcfg.add(A, "mechanic", "car.params", {})
                rcfg.add(A, "mechanic", "preserve.install", cfg["preserve"])
                rcfg.add(A, "mechanic", "repository.revision", "abc123")
                rcfg.add(A, "mechanic", "distribution.version", "8.6.1")
                rcfg.add(A, "telemetry", "devices", [])
                rcfg.add(A, "telemetry", "params", {})
                rcfg.add(A, "track", "params", {})
                ctx = {"race-id": "race-mech-1", "race-timestamp": "20240101T120000Z", "track": "simtrack", "challenge": "c", "car": "defaults"}
                facade = system.facade()
                # daemons that join later
                for r in cfg["remotes"]:
                    if r["join"] == "after":
                        system.call_at(0.2 + r["join_delay"], lambda ip=r["ip"]: system.host_join(ip))
                    elif r["join"] == "late":
                        system.call_at(3.0 + r["join_delay"], lambda ip=r["ip"]: system.host_join(ip))
                mech = facade.createActor(mechanic.MechanicActor, targetActorRequirements={"coordinator": True})
                start = mechanic.StartEngine(rcfg, ctx, False, True, cfg["external"], False)

                def wait(pred, what):
                    try:
                        system.run_until(pred)
                        return True
                    except SimHang as e:
                        outcome["hang"] = f"while waiting for {what}: {e}"
                        return False

                def drain_replies():
                    while system.replies:
                        m = system.replies.pop(0)
                        replies.append((clock.now, type(m).__name__, m))

                facade.tell(mech, start)
                if fault and fault["kind"] == "daemon-leaves" and fault["when"] == "after-started":
                    pass
                ok = wait(lambda: bool(system.replies), "EngineStarted or BenchmarkFailure")
                drain_replies()
                first = replies[0][1] if replies else None
                outcome["first"] = first
                if ok and first == "EngineStarted" and fault and fault["kind"] == "daemon-leaves" and fault["when"] == "after-started":
                    state["left"] = True
                    leave(fault["ip"])
                    # let the consequences play out for a while
                    t_end = clock.now + 5.0
                    system.call_at(t_end, lambda: None)
                    wait(lambda: clock.now >= t_end or bool(system.replies), "consequences of the departure")
                    drain_replies()
                if ok:
                    # let everything in flight (a late failure notification, a second acknowledgement) arrive before stopping
                    try:
                        system.run_until_quiescent(120.0)
                    except SimHang as e:
                        outcome["hang"] = f"while settling: {e}"
                    drain_replies()
                    outcome["n_before_stop"] = len(replies)
                    if first == "EngineStarted" and cfg["stop"] == "stop" and not system.faults.get("daemon_left"):
                        facade.tell(mech, mechanic.StopEngine())
                        wait(lambda: any(type(m).__name__ in ("EngineStopped", "BenchmarkFailure") for m in system.replies), "EngineStopped")
                        drain_replies()
                        facade.tell(mech, th.ActorExitRequest())
                    else:
                        # what race() does after a failure (and what a cancelled race does): just the exit request
                        facade.tell(mech, th.ActorExitRequest())
                    try:
                        system.run_until_quiescent(180.0)
                    except SimHang as e:
                        outcome["hang"] = f"during shutdown: {e}"
                    drain_replies()
        finally:
            supplier.create, provisioner.local, launcher.ProcessLauncher, mechanic.load_team, metrics.InMemoryMetricsStore.flush = saved
            metrics.calculate_system_results, metrics.race_store, metrics.results_store = saved_metrics
            rally_net.resolve = orig_resolve

        try:
            for kname, v in system.faults.items():
                fired[kname] = fired.get(kname, 0) + v
            self.oracle(cfg, fault, fired, state, outcome, replies, rec, run_dir, system, bad)
            h = hashlib.sha1()
            for line in system.digest_lines():
                h.update(line.encode() + b"\n")
            for e in rec.events:
                h.update(f"{round(e[0], 9)}|{e[1]}|{e[2]}|{e[3]}\n".encode())
            hostips = sorted({t.split(":")[0] for t in cfg["targets"]})
            probes = dict(system.probes)
            probes["daemon_joined_after_subscription"] = int(any(r["join"] != "before" for r in cfg["remotes"]))
            probes["several_nodes_on_one_host"] = int(len(cfg["targets"]) > len(set(cfg["targets"])) or len(cfg["targets"]) > len(hostips))
            probes["external"] = int(cfg["external"])
            probes["stopped_by_exit_request"] = int(cfg["stop"] == "exit")
            sample = {"cfg": cfg, "replies": [r[1] for r in replies], "stub_calls": [(round(e[0], 4), e[1], e[2], e[3]) for e in rec.events[:12]]}
            stats = {"steps": system.steps, "sim_s": clock.now, "faults": fired, "probes": {k: int(v) for k, v in probes.items()}}
            return RunResult(digest=h.hexdigest(), nontrivial=len(hostips) >= 2 or bool(fired), violations=violations, stats=stats, sample=sample)
        finally:
            shutil.rmtree(run_dir, ignore_errors=True)

    # ------------------------------------------------------------------------------------
    def oracle(self, cfg, fault, fired, state, outcome, replies, rec, run_dir, system, bad):
        names_all = [r[1] for r in replies]
        # what race control saw before it asked for the stop / sent the exit request; later failures are shutdown noise
        replies_start = replies[: outcome.get("n_before_stop", len(replies))]
        names = [r[1] for r in replies_start]
        targets = cfg["targets"]
        # expected node ids per (ip, port) in target order
        by_host = {}
        for i, t in enumerate(targets):
            by_host.setdefault(t, []).append(i)
        all_nodes = {(t.split(":")[0], f"rally-node-{i}") for t, ids in by_host.items() for i in ids}
        started = [(e[2], e[3]) for e in rec.events if e[1] == "node-started"]
        stopped = [(e[2], e[3]) for e in rec.events if e[1] == "node-stopped"]
        what = json.dumps(fault) if fault else "no fault"
        if cfg["external"]:
            if rec.events:
                bad("external", "touched", f"externally provisioned cluster but the node mechanic was used: {rec.events[:4]}")
            if names[:1] != ["EngineStarted"]:
                bad("external", "no-ack", f"external cluster: expected an immediate EngineStarted, got {names}")
            if cfg["stop"] == "stop" and names_all.count("EngineStopped") != 1:
                bad("external", "no-stop-ack", f"external cluster: StopEngine answered with {names_all}")
            if any(c.cls is not None and c.cls.__name__ in ("Dispatcher", "NodeMechanicActor") for c in system.cells.values()):
                bad("external", "child-actor", "external cluster: a dispatcher or node mechanic actor was created")
            return
        fault_effective = bool(fired.get("node_start_raises")) or (bool(fired.get("daemon_left")) and not state.get("engine_started_before_leave"))
        if "hang" in outcome:
            key = "hang" if not fault else f"hang-after-{fault['kind']}" + (f"-{fault['when']}" if fault.get("when") else "")
            bad("liveness", key, f"[{what}] targets {targets} remotes {cfg['remotes']}: {outcome['hang']}; race control saw {names}")
            return
        if names.count("EngineStarted") > 1:
            bad("engine-started", "more-than-once", f"[{what}]: EngineStarted reached race control {names.count('EngineStarted')} times")
        if "EngineStarted" in names:
            t_started = [r[0] for r in replies if r[1] == "EngineStarted"][0]
            started_before = {(e[2], e[3]) for e in rec.events if e[1] == "node-started" and e[0] <= t_started}
            missing = sorted(all_nodes - started_before)
            if missing:
                bad("engine-started", "before-all-nodes", f"[{what}] targets {targets}: EngineStarted at {t_started:.4f} but nodes {missing} had not been started")
            if fault_effective and fault["kind"] == "start-fails":
                bad("engine-started", "despite-start-failure", f"[{what}]: EngineStarted although starting nodes on {fault['ip']} failed")
        if fault_effective:
            if "BenchmarkFailure" not in names:
                bad("failure-reported", f"missing-{fault['kind']}" + (f"-{fault['when']}" if fault.get("when") else ""), f"[{what}] targets {targets}: race control never received a BenchmarkFailure, only {names}")
            else:
                t_fail = [r[0] for r in replies if r[1] == "BenchmarkFailure"][0]
                # (a daemon may leave after its nodes were started and acknowledged: a later EngineStarted is then truthful)
                if fault["kind"] == "start-fails" and any(r[1] == "EngineStarted" and r[0] > t_fail for r in replies):
                    bad("engine-started", "after-failure", f"[{what}]: EngineStarted after a BenchmarkFailure")
        elif not fault and "EngineStarted" not in names:
            bad("engine-started", "missing", f"fault-free start of {targets} answered with {names}")
        elif not fault and "BenchmarkFailure" in names:
            bad("engine-started", "spurious-failure", f"fault-free run reported a failure: {names}")
        # a duplicate node start is never right
        if len(started) != len(set(started)):
            bad("start", "node-started-twice", f"[{what}]: nodes started {started}")
        # stop: every started node exactly once (a departed daemon's nodes are beyond reach)
        gone = fault["ip"] if fault and fault["kind"] == "daemon-leaves" and fired.get("daemon_left") else None
        for n in set(started):
            k = stopped.count(n)
            if n[0] == gone:
                continue
            if k != 1:
                bad("stop", "not-exactly-once" if k else "node-left-running", f"[{what}] stop={cfg['stop']}: node {n} was started and stopped {k} times (race control saw {names})")
                break
        extra = [n for n in stopped if n not in started]
        if extra:
            bad("stop", "stopped-unstarted", f"[{what}]: nodes {extra} stopped but never started")
        # flush with refresh and cleanup per stopped node
        for ip in sorted({n[0] for n in stopped}):
            if not any(e[1] == "flush" and e[2] == ip and e[3] for e in rec.events):
                bad("stop", "no-refreshing-flush", f"[{what}]: host {ip} stopped its nodes without flushing system metrics with refresh")
                continue
            # ... and in this order: stop the nodes, flush with refresh (what the nodes wrote becomes readable), then read and store
            # the system results (closing the store flushes once more, which is too late for them)
            evs = [e for e in rec.events if e[2] == ip]
            for i, e in enumerate(evs):
                if e[1] != "results-stored":
                    continue
                j = max((k for k in range(i) if evs[k][1] == "node-stopped"), default=None)
                if j is not None and not any(evs[k][1] == "flush" and evs[k][3] for k in range(j + 1, i)):
                    bad("stop", "results-read-before-refreshing-flush", f"[{what}]: host {ip} stored the system results of {e[3]} without a refreshing flush between stopping its nodes and reading their metrics ({[(x[1], x[3]) for x in evs[j:i + 1]]})")
                    break
        # ... and the system results of every stopped node are stored (once)
        for n in sorted(set(stopped)):
            k = sum(1 for e in rec.events if e[1] == "results-stored" and e[2] == n[0] and e[3] == n[1])
            if k != stopped.count(n):
                bad("stop", "system-results-not-stored" if k < stopped.count(n) else "system-results-stored-twice", f"[{what}]: node {n} was stopped {stopped.count(n)}x but its system results were stored {k}x (stored: {[(e[2], e[3]) for e in rec.events if e[1] == 'results-stored']})")
                break
        for n in set(stopped):
            root = os.path.join(run_dir, n[0].replace(".", "_"), n[1])
            left = [p for p in ("install", "data") if os.path.exists(os.path.join(root, p))]
            if cfg["preserve"] and len(left) != 2:
                bad("cleanup", "removed-despite-preserve", f"[{what}]: node {n}: preserve is set but only {left} is left")
            if not cfg["preserve"] and left:
                bad("cleanup", "not-removed", f"[{what}]: node {n}: {left} still exists after stop")
        # (a daemon that leaves after all its node mechanics have confirmed the stop changes nothing about what is owed)
        if "EngineStarted" in names and cfg["stop"] == "stop" and (not gone or fault.get("when") == "after-stopped"):
            if names_all.count("EngineStopped") != 1:
                bad("engine-stopped", "count", f"[{what}]: EngineStopped reached race control {names_all.count('EngineStopped')} times ({names_all})")
            else:
                # ... acknowledged only after all hosts have confirmed: one NodesStopped per (ip, port) must have reached the mechanic
                groups = len(set(cfg["targets"]))
                sent = state.get("engine_stopped_sent")
                if sent is not None and sent[1] < groups:
                    bad("engine-stopped", "before-all-confirmations", f"[{what}]: EngineStopped was sent at {sent[0]:.4f} after {sent[1]} of {groups} NodesStopped confirmations had arrived")
                t_stop = [r[0] for r in replies if r[1] == "EngineStopped"][0]
                late = [e for e in rec.events if e[1] == "node-stopped" and e[0] > t_stop]
                if late:
                    bad("engine-stopped", "before-all-hosts", f"[{what}]: EngineStopped at {t_stop:.4f} but {late[0][2]} stopped {late[0][3]} at {late[0][0]:.4f}")


HARNESS = MechanicHarness()
