"""C14 -- corpus preparation ends with complete, verified data or an explicit error (DESIGN.md 5.10).

Synchronous code: the "schedule" is the fault plan.  A run is a sequence of 1-3 incarnations of the real
DocumentSetPreparator (real Downloader, Decompressor, net.download/download_http/_download_http,
io.decompress, io.prepare_file_offset_table, io.skip_lines) on the same scratch directory; all but the
last may be cut by a simulated process kill at any file-system operation.
"""
from __future__ import annotations

import bz2
import gzip
import hashlib
import io as pyio
import json
import os
import shutil
import tarfile
import tempfile
import zipfile

from sim.batch import Harness, RunResult
from sim.simfs import Crash, SimFS, SimHTTP

FORMATS = [None, ".bz2", ".gz", ".zst", ".zip", ".tar.gz", ".tgz", ".tar.bz2", ".tar"]
LARGE_LINES = 60_001
STATES = ["absent", "absent", "correct", "truncated", "garbage"]


def make_doc(n, meta, large=False):
    out = bytearray()
    if large:
        # multi-byte content: byte offsets and character counts differ
        for i in range(n):
            out += ('{"n":%d,"t":"é✓"}\n' % i).encode("utf-8")
        return bytes(out)
    for i in range(n):
        if meta:
            out += ('{"index":{"_id":"%d"}}\n' % i).encode()
        out += ('{"n":%d,"t":"héllo wörld %s"}\n' % (i, "x" * (i % 17))).encode("utf-8")
    return bytes(out)


def make_archive(fmt, name, content):
    if fmt == ".bz2":
        return bz2.compress(content)
    if fmt == ".gz":
        return gzip.compress(content, mtime=0)
    if fmt == ".zst":
        import zstandard

        return zstandard.ZstdCompressor().compress(content)
    if fmt == ".zip":
        b = pyio.BytesIO()
        with zipfile.ZipFile(b, "w", zipfile.ZIP_DEFLATED) as z:
            z.writestr(zipfile.ZipInfo(name, date_time=(2020, 1, 1, 0, 0, 0)), content)
        return b.getvalue()
    mode = {".tar": "w", ".tar.gz": "w:gz", ".tgz": "w:gz", ".tar.bz2": "w:bz2"}[fmt]
    b = pyio.BytesIO()
    with tarfile.open(fileobj=b, mode=mode) as t:
        ti = tarfile.TarInfo(name)
        ti.size = len(content)
        ti.mtime = 0
        t.addfile(ti, pyio.BytesIO(content))
    return b.getvalue()


def gen(g, tier):
    large = g.coin(0.06)
    fmt = g.pick(FORMATS)
    if large:
        fmt = g.pick([None, ".gz", ".zst", ".bz2"])
    cfg = {
        "docs": LARGE_LINES if large else g.pick([0, 1, 2, 5, 17, 100, 300]),
        "large": large,
        "meta": False if large else g.coin(0.3),
        "format": fmt,
        "declare_compressed": g.coin(0.6),
        "declare_uncompressed": g.coin(0.6),
        "base_url": g.coin(0.85),
        "offline": g.coin(0.12),
        "test_mode": g.coin(0.15),
        "bundled": g.coin(0.25),
        "initial": {"doc": g.pick(STATES), "archive": g.pick(STATES) if fmt else "absent", "tmp": g.pick(["absent", "absent", "absent", "partial"]), "offset": "absent"},
        "flush": g.pick([1, 64, 4096, 8192, 65536]),
        "incarnations": [],
    }
    # a table that is newer than its data file belongs to that very file (possibly cut by a killed build); tables next to a
    # partial / foreign data file are older than it ("stale"), whatever they contain
    if cfg["docs"] and cfg["initial"]["doc"] == "correct":
        # (a cut table that is *newer* than its data file can only be left by a killed table build; that is produced by the kill
        # faults of earlier incarnations, not assumed as an initial state)
        cfg["initial"]["offset"] = g.pick(["absent", "correct", "stale", "torn"])
    elif cfg["docs"] and cfg["initial"]["doc"] != "absent":
        cfg["initial"]["offset"] = g.pick(["absent", "stale", "torn"])
    cfg["tick"] = g.pick([1.0, 1.0, 0.01])
    if cfg["tick"] < 1 and cfg["initial"]["offset"] == "stale" and cfg["initial"]["doc"] in ("truncated", "garbage") and cfg["declare_uncompressed"]:
        # (only where the wrong-sized file is certain to be replaced: next to a file that stays, a newer table is simply its table)
        cfg["initial"]["offset"] = "stale-recent"
    if cfg["initial"]["offset"] == "stale" and cfg["initial"]["doc"] in ("truncated", "garbage") and cfg["declare_uncompressed"] and cfg["initial"]["archive"] == "correct" and g.coin(0.5):
        cfg["initial"]["offset"] = "stale-mid"
    n_inc = g.pick([1, 1, 2, 2, 3])
    for i in range(n_inc):
        last = i == n_inc - 1
        inc = {"http": [], "fs": {}, "torn": None, "extract_crash": None}
        # HTTP outcomes of this incarnation's attempts
        if g.coin(0.12):
            # the retry budget: 9..12 consecutive retryable failures (then a good response)
            kind = g.pick(["protocol-error", "read-timeout", "short"])
            n_fail = g.pick([9, 10, 11, 11, 12])
            for _ in range(n_fail):
                inc["http"].append({"kind": kind, "after_chunks": g.pick([0, 1])} if kind != "short" else {"kind": "short", "fraction": g.pick([0.3, 0.9]), "content_length": True})
        for _ in range(g.pick([0, 0, 1, 1, 2, 4, 10, 11]) if not inc["http"] else 0):
            k = g.weighted([4, 3, 3, 2, 2, 2, 1])
            if k == 0:
                inc["http"].append({"kind": "protocol-error", "after_chunks": g.pick([0, 0, 1])})
            elif k == 1:
                inc["http"].append({"kind": "read-timeout", "after_chunks": g.pick([0, 1])})
            elif k == 2:
                inc["http"].append({"kind": "short", "fraction": g.pick([0.0, 0.3, 0.9]), "content_length": g.coin(0.6)})
            elif k == 3:
                # (3xx: a redirect that urllib3 hands back unfollowed - no usable Location, 300 Multiple Choices, 304)
                inc["http"].append({"kind": "status", "code": g.pick([404, 403, 500, 503, 300, 302, 304])})
            elif k == 4:
                inc["http"].append({"kind": "corrupt", "content_length": g.coin(0.7)})
            elif k == 5:
                inc["http"].append({"kind": "ok", "content_length": False})
            else:
                inc["http"].append({"kind": "connect-error"})
        if not last:
            # this incarnation is killed at some file-system operation (if it gets that far)
            inc["fs"][str(g.pick([0, 0, 1, 1, 2, 3, 4, 6, 9, 14]))] = "kill"
            inc["torn"] = g.pick([None, 0.0, 0.5, 0.97])
            if fmt in (".zip", ".tar", ".tar.gz", ".tgz", ".tar.bz2") and g.coin(0.5):
                inc["extract_crash"] = g.pick([0.0, 0.4, 0.95])
        elif g.coin(0.2):
            inc["fs"][str(g.pick([0, 1, 2, 3, 5, 8]))] = g.pick(["interrupt", "enospc", "eio"])
        cfg["incarnations"].append(inc)
    return cfg


class CorpusHarness(Harness):
    name = "corpus"
    properties = ("C14",)

    def __init__(self):
        self.scratch = None
        self.large_doc = None
        self.large_archives = {}

    def meta(self, prop):
        return {
            "level": "fault_enumeration",
            "rule": "cases = document set (0-300 lines or 60,001 lines so that the offset table has an entry; with/without action lines; archive format bz2/gz/zst/zip/tar*/none; "
            "declared or undeclared sizes; base URL, offline, test mode, bundled or cached location) x initial state of document/archive/.tmp/.offset (absent, correct, truncated, "
            "wrong-sized garbage, stale or torn table) x 1-3 incarnations, each with a scripted sequence of HTTP outcomes (protocol error, read time-out, short body with/without "
            "Content-Length, 403/404/500/503, corrupt body, connect error) and at most one file-system fault (process kill with lost un-flushed data and torn last write in all but "
            "the last incarnation; interrupt / ENOSPC / EIO in the last); a systematic sweep kills a fixed download+decompress+table-build scenario at every operation index; "
            "non-trivial = a fault fired or an initial file was unusable; distinct = distinct digests of the file-system operation log and outcome",
            "assumptions": [
                "process-crash model (data handed to the OS survives), no power-loss model: Rally never fsyncs",
                "library decompressors are used (external binaries disabled); a kill inside zip/tar extraction is modelled as a truncated extracted file",
                "a short body cannot be detected by any client when neither a declared size nor Content-Length exists; such runs only check the no-garbage rules",
                "an initial file of exactly the declared size (or of undeclared size) is taken as correct by Rally; byte identity is only demanded for files Rally itself produced or that were initially correct",
            ],
            "components_real": ["loader.DocumentSetPreparator, Downloader, Decompressor", "net.download, download_http, _download_http", "io.decompress (+ library decompressors), prepare_file_offset_table, FileOffsetTable, skip_lines", "real files in a scratch directory"],
            "components_stub": ["HTTP server and urllib3 pool manager (SimHTTP behind net._HTTP/_HTTPS)", "kernel write path (SimFS buffer/crash model behind io.open / net.open / os.rename / os.remove)", "retry sleep (virtual)"],
            "quick_budget_s": 40.0,
            "thorough_budget_s": 600.0,
        }

    def setup(self, prop, tier):
        self.scratch = tempfile.mkdtemp(prefix="esrally-verif-c14-")
        self.large_doc = make_doc(LARGE_LINES, False, large=True)
        for fmt in ((".gz", ".zst", ".bz2") if tier == "quick" else [f for f in FORMATS if f]):
            self.large_archives[fmt] = make_archive(fmt, "documents.json", self.large_doc)

    def teardown(self):
        if self.scratch:
            shutil.rmtree(self.scratch, ignore_errors=True)

    def chunk_size(self, prop, tier):
        return 20

    def generate(self, prop, g, tier):
        return gen(g, tier)

    def enumerated(self, prop, tier):
        yield from self.enumerated_retry_budget()
        # kill a clean "download archive, decompress, build table" run at every operation index, then run again
        for fmt in ([".bz2", ".zip", None] if tier == "quick" else FORMATS):
            for large in (False, True):
                if large and fmt == ".zip":
                    continue
                for decl in ((True, True), (False, False)):
                    base = {"docs": LARGE_LINES if large else 100, "large": large, "meta": False, "format": fmt, "declare_compressed": decl[0], "declare_uncompressed": decl[1], "base_url": True, "offline": False, "test_mode": False, "bundled": False, "initial": {"doc": "absent", "archive": "absent", "tmp": "absent", "offset": "absent"}, "flush": 4096}
                    for idx in range(0, 14 if not large else 40, 1 if not large else 3):
                        for torn in (None, 0.5):
                            c = json.loads(json.dumps(base))
                            c["incarnations"] = [{"http": [], "fs": {str(idx): "kill"}, "torn": torn, "extract_crash": None}, {"http": [], "fs": {}, "torn": None, "extract_crash": None}]
                            yield c

    def enumerated_retry_budget(self):
        for fmt in (".bz2", None):
            for decl in ((True, True), (False, False)):
                for kind in ("protocol-error", "read-timeout", "short"):
                    for n_fail in (9, 10, 11, 12):
                        base = {"docs": 40, "large": False, "meta": False, "format": fmt, "declare_compressed": decl[0], "declare_uncompressed": decl[1], "base_url": True, "offline": False, "test_mode": False, "bundled": False, "initial": {"doc": "absent", "archive": "absent", "tmp": "absent", "offset": "absent"}, "flush": 4096}
                        out = {"kind": kind, "after_chunks": 0} if kind != "short" else {"kind": "short", "fraction": 0.9, "content_length": True}
                        base["incarnations"] = [{"http": [dict(out) for _ in range(n_fail)], "fs": {}, "torn": None, "extract_crash": None}]
                        yield base

    def simplify(self, prop, cfg):
        def cp():
            return json.loads(json.dumps(cfg))

        if len(cfg["incarnations"]) > 1:
            for i in range(len(cfg["incarnations"]) - 1):
                c = cp()
                del c["incarnations"][i]
                yield c
        for i, inc in enumerate(cfg["incarnations"]):
            for j in range(len(inc["http"])):
                c = cp()
                del c["incarnations"][i]["http"][j]
                yield c
            if inc["fs"] and i == len(cfg["incarnations"]) - 1:
                c = cp()
                c["incarnations"][i]["fs"] = {}
                yield c
        for k in ("doc", "archive", "tmp", "offset"):
            if cfg["initial"][k] != "absent":
                c = cp()
                c["initial"][k] = "absent"
                yield c
        for k in ("offline", "test_mode", "bundled", "meta"):
            if cfg[k]:
                c = cp()
                c[k] = False
                yield c
        if not cfg["large"] and cfg["docs"] > 2:
            c = cp()
            c["docs"] = cfg["docs"] // 2
            yield c

    # ------------------------------------------------------------------------------------
    def execute(self, prop, cfg, ch, tier):
        from esrally.track import loader, track
        from esrally.utils import io, net

        run_dir = tempfile.mkdtemp(prefix="run-", dir=self.scratch)
        violations = []

        def bad(oracle, key, msg):
            if len(violations) < 10:
                violations.append({"oracle": oracle, "key": f"{oracle}:{key}", "message": msg})

        try:
            fmt = cfg["format"]
            doc_name = "documents.json"
            content = self.large_doc if cfg["large"] else make_doc(cfg["docs"], cfg["meta"])
            if fmt:
                if cfg["large"] and fmt not in self.large_archives:
                    self.large_archives[fmt] = make_archive(fmt, "documents.json", self.large_doc)
                archive = self.large_archives[fmt] if cfg["large"] else make_archive(fmt, doc_name, content)
                arch_name = doc_name + fmt
            else:
                archive, arch_name = None, None
            lines_per_doc = 2 if cfg["meta"] else 1
            ndocs = cfg["docs"]
            nlines = len(content.split(b"\n")) - 1
            ds = track.Documents(
                source_format=track.Documents.SOURCE_FORMAT_BULK,
                document_file=doc_name,
                document_archive=arch_name,
                base_url="http://corpora.sim/base" if cfg["base_url"] else None,
                includes_action_and_meta_data=cfg["meta"],
                number_of_documents=ndocs,
                compressed_size_in_bytes=len(archive) if (archive is not None and cfg["declare_compressed"]) else None,
                uncompressed_size_in_bytes=len(content) if cfg["declare_uncompressed"] else None,
                target_index="idx",
            )
            # the directories DefaultTrackPreparator.prepare_docs resolves: next to the track (only with --track-path, "bundled") and the
            # corpus directory below the data set cache
            root0 = os.path.join(run_dir, "trackdir")
            root1 = os.path.join(run_dir, "cache", "c")
            os.makedirs(root0)
            os.makedirs(root1)
            from esrally import config as rally_config

            rally_cfg = rally_config.Config()
            rally_cfg.add(rally_config.Scope.application, "benchmarks", "local.dataset.cache", os.path.join(run_dir, "cache"))
            if cfg["bundled"]:
                with open(os.path.join(run_dir, "track.json"), "w") as f:
                    f.write("{}")
                os.rename(os.path.join(run_dir, "track.json"), os.path.join(root0, "track.json"))
                rally_cfg.add(rally_config.Scope.application, "track", "track.path", root0)

            class _Corpus:
                name = "c"
                documents = [ds]

            class _Track:
                name = "trackdir"
                corpora = [_Corpus]
            place = root0 if cfg["bundled"] else root1
            doc_path = os.path.join(place, doc_name)
            arch_path = os.path.join(place, arch_name) if arch_name else None

            # ---- initial state ------------------------------------------------------------
            def put(path, data, mtime):
                with open(path, "wb") as f:
                    f.write(data)
                os.utime(path, (mtime, mtime))

            init = cfg["initial"]
            initially_correct_doc = False
            if init["doc"] == "correct":
                put(doc_path, content, 500_000)
                initially_correct_doc = True
            elif init["doc"] == "truncated" and len(content) > 3:
                put(doc_path, content[: len(content) * 2 // 3], 500_000)
            elif init["doc"] == "garbage":
                put(doc_path, b"garbage\n" * (len(content) // 8 + 3), 500_000)
            if arch_path:
                if init["archive"] == "correct":
                    put(arch_path, archive, 400_000)
                elif init["archive"] == "truncated" and len(archive) > 3:
                    put(arch_path, archive[: len(archive) // 2], 400_000)
                elif init["archive"] == "garbage":
                    put(arch_path, b"\x00garbage" * (len(archive) // 8 + 3), 400_000)
            dl_target = arch_path or doc_path
            if init["tmp"] == "partial":
                put(dl_target + ".tmp", (archive if archive is not None else content)[:5], 300_000)
            table_path = doc_path + ".offset"
            if os.path.exists(doc_path) and init["offset"] != "absent":
                real_table = ""
                if nlines >= 50000:
                    off = 0
                    for i, l in enumerate(content.split(b"\n")[:-1], 1):
                        off += len(l) + 1
                        if i % 50000 == 0:
                            real_table += f"{i};{off}\n"
                if init["offset"] == "correct":
                    put(table_path, real_table.encode(), 600_000)
                elif init["offset"] == "stale":
                    put(table_path, b"50000;17\n", 100_000)  # older than the data file: must be rebuilt
                elif init["offset"] == "stale-mid":
                    # a table of an earlier version of the file: newer than the archive on disk, older than anything this run produces
                    put(table_path, b"50000;17\n", 450_000)
                elif init["offset"] == "stale-recent":
                    # a table of an earlier version of the file, written a fraction of a second before the file is replaced in this run
                    put(table_path, b"50000;17\n", 1_000_000.0)
                elif init["offset"] == "torn":
                    put(table_path, b"50000;1", 100_000)
                elif init["offset"] == "torn-newer":
                    # what a killed table build leaves: newer than the data file, content cut
                    put(table_path, (real_table[: max(0, len(real_table) - 3)] or "50000;1").encode(), 600_000)
            initial_files = {p: open(os.path.join(place, p), "rb").read() for p in os.listdir(place)}

            bodies = {doc_name: content}
            if arch_name:
                bodies[arch_name] = archive
            # ---- incarnations -------------------------------------------------------------
            fs = SimFS(ch.stream("fs"), flush_threshold=cfg["flush"])
            fs.tick = cfg.get("tick", 1.0)
            saved = (io.open if hasattr(io, "open") else None, getattr(net, "open", None), net.os, io.os, io.is_executable, net._HTTP, net._HTTPS, net.download_http.__kwdefaults__["sleep"], io._do_decompress)
            sleeps = []
            fired = {}
            results = []
            http_total = 0
            served = []
            killed_at_table_removal = False
            try:
                io.open = fs.open
                net.open = fs.open
                net.os = fs.os_proxy()
                io.os = fs.os_proxy()
                io.is_executable = lambda name: False
                net.download_http.__kwdefaults__["sleep"] = lambda s: sleeps.append(s)
                orig_extract = saved[8]
                for i, inc in enumerate(cfg["incarnations"]):
                    last = i == len(cfg["incarnations"]) - 1
                    fs.new_incarnation({int(k): v for k, v in inc["fs"].items()})
                    fs.torn_fraction = inc["torn"]
                    http = SimHTTP(bodies, inc["http"])
                    net._HTTP = http
                    net._HTTPS = http

                    def extract(target_directory, compressed_file, _inc=inc):
                        # zip/tar extraction is library code writing through the real open(): model a kill as a truncated result
                        if fs.frozen:
                            compressed_file.close()
                            return
                        orig_extract(target_directory, compressed_file)
                        p = os.path.join(target_directory, doc_name)
                        if os.path.exists(p):
                            fs.vtime += fs.tick
                            fs.touch(p)
                            if _inc["extract_crash"] is not None and not last:
                                with open(p, "rb") as f:
                                    data = f.read()
                                with open(p, "wb") as f:
                                    f.write(data[: int(len(data) * _inc["extract_crash"])])
                                fs.touch(p)
                                fs.frozen = True
                                fs.fired["kill"] = fs.fired.get("kill", 0) + 1
                                raise Crash()

                    io._do_decompress = extract
                    before = {p: os.path.getsize(os.path.join(place, p)) for p in os.listdir(place)}
                    prep = loader.DocumentSetPreparator("simtrack", loader.Downloader(cfg["offline"], cfg["test_mode"]), loader.Decompressor())
                    try:
                        loader.DefaultTrackPreparator.prepare_docs(rally_cfg, _Track, _Corpus, prep)
                        # the load generators read the first existing file over the resolved directories (set_absolute_data_path)
                        final_root = next((r for r in loader.data_dir(rally_cfg, _Track.name, _Corpus.name) if os.path.exists(os.path.join(r, doc_name))), root1)
                        results.append(("returned", final_root))
                    except Crash:
                        results.append(("killed", None))
                        if fs.log and fs.log[-1][1] == "unlink" and fs.log[-1][2].endswith(".offset"):
                            killed_at_table_removal = True
                    except BaseException as e:  # noqa
                        results.append(("raised", e))
                    fs.frozen = False
                    http_total += len(http.requests)
                    served.extend(http.served_complete)
                    for k, v in http.fired.items():
                        fired["http-" + k] = fired.get("http-" + k, 0) + v
                    if cfg["offline"] and http.requests:
                        bad("offline", "http-request", f"offline mode but {len(http.requests)} HTTP requests were made: {http.requests[:2]}")
                    # after every incarnation (also a killed one): nothing partial under the final download name
                    for root in (root0, root1):
                        target = os.path.join(root, arch_name or doc_name)
                        if os.path.exists(target) and arch_name:
                            data = open(target, "rb").read()
                            initial = initial_files.get(arch_name) if root == place else None
                            if data != archive and data != initial and data not in served:
                                bad("download", "partial-under-final-name", f"incarnation {i} ({results[-1][0]}): [{os.path.basename(target)}] holds {len(data)} bytes which are neither the published archive ({len(archive)} bytes) nor a body the server delivered completely nor what was there initially; fs ops {fs.log[-6:]}")
                            elif cfg["declare_compressed"] and data != initial and len(data) != len(archive):
                                bad("download", "wrong-size-under-final-name", f"incarnation {i}: [{os.path.basename(target)}] has {len(data)} bytes, the track declares {len(archive)}")
                        if os.path.exists(target) and not arch_name:
                            data = open(target, "rb").read()
                            initial = initial_files.get(doc_name) if root == place else None
                            if data != content and data != initial and data not in served:
                                bad("download", "partial-under-final-name", f"incarnation {i} ({results[-1][0]}): [{doc_name}] holds {len(data)} bytes which are neither the published file ({len(content)} bytes) nor a body the server delivered completely nor what was there initially; fs ops {fs.log[-6:]}")
                    # retry budget: <= HTTP_DOWNLOAD_RETRIES protocol errors / time-outs followed by a good response succeed
                    if results[-1][0] == "raised" and not inc["fs"]:
                        e = results[-1][1]
                        seq = [o["kind"] for o in inc["http"]]
                        used = seq[: len(http.requests)]
                        retryable = all(k in ("protocol-error", "read-timeout") or (k == "short" and o.get("content_length", True)) for k, o in zip(used[:-1], inc["http"]))
                        import urllib3

                        if isinstance(e, (urllib3.exceptions.ProtocolError, urllib3.exceptions.ReadTimeoutError)) and len(http.requests) <= net.HTTP_DOWNLOAD_RETRIES:
                            bad("download", "gave-up-early", f"download gave up after {len(http.requests)} attempts with {type(e).__name__}; {net.HTTP_DOWNLOAD_RETRIES} retries are configured")
                for k, v in fs.fired.items():
                    fired["fs-" + k] = fired.get("fs-" + k, 0) + v
            finally:
                io.open, net.open = saved[0], saved[1]
                if saved[0] is None:
                    del io.open
                if saved[1] is None:
                    del net.open
                net.os, io.os, io.is_executable, net._HTTP, net._HTTPS = saved[2], saved[3], saved[4], saved[5], saved[6]
                net.download_http.__kwdefaults__["sleep"] = saved[7]
                io._do_decompress = saved[8]

            # ---- oracle after the final incarnation ---------------------------------------
            final = results[-1]
            probes = {"large_file": int(cfg["large"]), "killed_incarnation": int(any(r[0] == "killed" for r in results)), "final_returned": int(final[0] == "returned"), "final_raised": int(final[0] == "raised"), "retry_sleeps": len(sleeps), "torn_table_initial": int(init["offset"] in ("torn", "torn-newer")), "undeclared_sizes": int(not cfg["declare_uncompressed"])}
            if final[0] == "killed":
                raise RuntimeError("harness bug: the last incarnation must not be killed")
            if final[0] == "raised":
                e = final[1]
                if isinstance(e, Crash):
                    bad("error", "crash-marker-leaked", "the crash marker of an earlier incarnation surfaced")
            else:
                root = final[1]
                fdoc = os.path.join(root, doc_name)
                if not os.path.isfile(fdoc):
                    bad("result", "document-missing", f"preparation returned but [{doc_name}] does not exist in {os.path.basename(root)}")
                else:
                    data = open(fdoc, "rb").read()
                    if cfg["declare_uncompressed"] and len(data) != len(content):
                        bad("result", "wrong-size", f"preparation returned but [{doc_name}] has {len(data)} bytes, the track declares {len(content)}")
                    existed_initially = doc_name in initial_files and root == place
                    must_match = initially_correct_doc or not existed_initially or cfg["declare_uncompressed"]
                    # without declared size and without Content-Length a short/corrupt body is undetectable
                    undetectable = any(o["kind"] in ("short", "corrupt", "ok") and (o.get("content_length", True) is False or o["kind"] == "corrupt") for inc in cfg["incarnations"] for o in inc["http"])
                    if arch_name and not cfg["declare_compressed"] and undetectable:
                        must_match = must_match and cfg["declare_uncompressed"]
                    if not arch_name and not cfg["declare_uncompressed"] and undetectable:
                        must_match = False
                    if arch_name and init["archive"] in ("truncated", "garbage") and not cfg["declare_compressed"]:
                        must_match = must_match and cfg["declare_uncompressed"]
                    if any(o["kind"] == "corrupt" for inc in cfg["incarnations"] for o in inc["http"]) and not (cfg["declare_uncompressed"] and False):
                        # a corrupt body of the right length passes every size check
                        must_match = False
                    if must_match and data != content:
                        firstdiff = next((k for k in range(min(len(data), len(content))) if data[k] != content[k]), min(len(data), len(content)))
                        how = "killed earlier incarnation" if any(r[0] == "killed" for r in results) else "no kill"
                        key = "content-differs" + ("-after-kill" if how.startswith("killed") else "")
                        # the open known finding is exactly this: cut *inside the last line* (all earlier lines complete, the last one
                        # partial but not empty), so that the line count still matches; anything else is a different violation
                        # (single-file archives - .bz2 / .gz / .zst - are decompressed under a temporary name since the repair; what is left
                        # open concerns archives that are *extracted*: tar and zip members are written in place)
                        extracted = cfg["format"] in (".zip", ".tar", ".tar.gz", ".tgz", ".tar.bz2")
                        if extracted and how.startswith("killed") and not cfg["declare_uncompressed"] and arch_name and data and content.startswith(data) and not data.endswith(b"\n") and data.count(b"\n") == content.count(b"\n") - 1:
                            key = "partial-extraction-accepted-undeclared-size"
                        elif extracted and how.startswith("killed") and killed_at_table_removal and not cfg["declare_uncompressed"]:
                            # second open known finding: the table of a file that failed the line-count check survives when the
                            # process is killed right at its removal; being newer than the file it vouches for it from then on
                            key = "rejected-extracted-file-vouched-for-by-table-that-survived-kill-at-removal"
                        bad("result", key, f"preparation returned but [{doc_name}] ({len(data)} bytes) differs from the published content ({len(content)} bytes) at byte {firstdiff}; sizes declared: compressed={cfg['declare_compressed']} uncompressed={cfg['declare_uncompressed']}; {how}; initial {init}")
                    # ... together with a line-offset table ...
                    if not os.path.isfile(fdoc + ".offset"):
                        left = sorted(x for x in os.listdir(root) if x.startswith(doc_name))
                        bad("offset-table", "missing" + ("-after-kill" if any(r[0] == "killed" for r in results) else ""), f"preparation returned but there is no offset table for [{doc_name}]; files: {left}; initial {init}")
                    # ... that positions readers exactly like skipping line by line
                    total_lines = data.count(b"\n")
                    targets = sorted({0, 1, total_lines // 3, total_lines // 2, max(0, total_lines - 1), 49_999, 50_000, 50_001, 55_555} & set(range(0, total_lines + 1)) | ({total_lines // 2} if total_lines else set()))
                    line_starts = None
                    for n in targets:
                        if n > total_lines:
                            continue
                        with open(fdoc, "rb") as f:
                            try:
                                io.skip_lines(fdoc, f, n)
                                pos = f.tell()
                            except Exception as e:  # noqa
                                bad("offset-table", "skip-raises", f"skip_lines({n}) raised {e!r} with the table left by preparation: {open(fdoc + '.offset', 'rb').read()[:80] if os.path.exists(fdoc + '.offset') else None}")
                                break
                        if line_starts is None:
                            line_starts = [0]
                            p = 0
                            for l in data.split(b"\n")[:-1]:
                                p += len(l) + 1
                                line_starts.append(p)
                        if pos != line_starts[n]:
                            tbl = open(fdoc + ".offset", "rb").read()[:80] if os.path.exists(fdoc + ".offset") else None
                            bad("offset-table", "mispositioned" + ("-after-kill" if any(r[0] == "killed" for r in results) else ""), f"after skipping {n} lines the reader is at byte {pos}, reading line by line gives {line_starts[n]}; offset table: {tbl}; initial {init}")
                            break
                        if n >= 50_000:
                            probes["offset_table_used_for_seek"] = 1
            digest = hashlib.sha1(json.dumps({"log": fs.log[-200:], "results": [(r[0], type(r[1]).__name__ if r[0] == "raised" else None) for r in results], "cfg": cfg}, sort_keys=True, default=str).encode()).hexdigest()
            nontrivial = bool(fired) or any(v not in ("absent", "correct") for v in init.values())
            sample = {"cfg": {k: v for k, v in cfg.items()}, "results": [(r[0], type(r[1]).__name__ if r[0] == "raised" else None) for r in results], "fs_ops": fs.log[:8], "http_requests": http_total}
            return RunResult(digest=digest, nontrivial=nontrivial, violations=violations, stats={"steps": len(fs.log), "sim_s": sum(sleeps), "faults": fired, "probes": probes}, sample=sample)
        finally:
            shutil.rmtree(run_dir, ignore_errors=True)


HARNESS = CorpusHarness()
