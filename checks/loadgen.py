"""C04 / C05 / C18 -- load-generator simulation (DESIGN.md 5.3, 5.4, 5.13).

Real AsyncIoAdapter / AsyncExecutor / schedule_for / schedulers / Sampler / request contexts /
runners / client stack, one virtual loop per simulated worker, SimES behind the static-response
seam.  Oracles compare drained samples with what the simulated cluster saw and with the instants
aiohttp's trace hooks fired (recorded by a harness-owned TraceConfig that runs right after Rally's
own hooks and never advances the clock, so it sees exactly the values Rally read).
"""
from __future__ import annotations

import hashlib
import json
import math
import random

from sim import rallyenv
from sim.batch import Harness, RunResult
from sim.loadsim import LoadSim, LoadStuck, ScheduleObserver, SimParamSource, SimPollRunner, SimRunner, history_digest
from sim.simes import Installed, Outcome, SimES
from sim.vclock import EPOCH, Proc, VClock

FAULTS = ["http-400", "http-404", "http-500", "http-503x2", "http-503x4", "connx2", "disconnectx1", "disconnectx2", "timeout", "timeout-last", "body-timeout", "slow"]


# ---------------------------------------------------------------------------------------------
# generation
# ---------------------------------------------------------------------------------------------
def gen_service(g):
    kind = g.weighted([3, 3, 2, 2])
    if kind == 0:
        return {"kind": "const", "v": g.pick([0.001, 0.01, 0.05, 0.2])}
    if kind == 1:
        lo = g.pick([0.001, 0.01, 0.05])
        return {"kind": "uniform", "lo": lo, "hi": lo * g.pick([2, 5, 20])}
    if kind == 2:
        return {"kind": "bimodal", "base": g.pick([0.002, 0.02]), "p": g.pick([0.05, 0.2]), "factor": g.pick([10, 100])}
    return {"kind": "uniform", "lo": 0.2, "hi": 1.5}  # slower than most target intervals


def mean_service(svc):
    if svc["kind"] == "const":
        return svc["v"]
    if svc["kind"] == "uniform":
        return (svc["lo"] + svc["hi"]) / 2
    return svc["base"] * (1 + svc["p"] * svc["factor"])


def gen_task(g, prop, name, svc, allow_ramp, big=False):
    t = {"name": name, "clients": g.pick([1, 1, 2, 2, 3, 4, 6] + ([8, 8] if big else []))}
    if prop == "C18" and not g.coin(0.75):
        # a quarter of the C18 tasks are not composites: half of those run one of Rally's own multi-request runners
        t["op"] = "real" if g.coin(0.5) else g.pick(["sim-op", "sim-op", "raw-request"])
    else:
        t["op"] = "composite" if prop == "C18" else g.pick(["sim-op", "sim-op", "raw-request"])
        if prop == "C04" and g.coin(0.15):
            t["op"] = "real"  # one of Rally's own runners (several HTTP requests per logical request)
    ms = mean_service(svc)
    loop = g.weighted([5, 4, 2])
    if prop == "C05" and g.coin(0.1):
        # a runner that reports completion itself: explicit iterations still win, otherwise the runner ends the task
        t["op"] = "sim-poll"
        t["clients"] = 1
        loop = g.pick([0, 3])
    if loop == 3:
        pass  # neither iterations nor time periods
    elif loop == 0:
        t["warmup-iterations"] = g.pick([0, 0, 1, 2, 3])
        t["iterations"] = g.pick([1, 1, 2, 3, 5, 8, 12])
        if g.coin(0.15):  # only one of the two given
            t.pop("warmup-iterations" if g.coin(0.5) else "iterations")
            if "iterations" not in t and t.get("warmup-iterations", 0) == 0:
                t["warmup-iterations"] = 2
        if g.coin(0.3):
            # explicit iterations on top of a finite parameter source (e.g. indexing only part of a corpus)
            t["size"] = g.randint(1, 20)
            t["progress"] = g.coin(0.5)
    elif loop == 1:
        tp = g.pick([0.05, 0.2, 1.0, 3.0])
        wt = g.pick([0, 0, 0.3, 1.0, 2.0])
        # keep the number of requests per client bounded
        while (tp + wt) / max(ms, 1e-4) > 150:
            tp /= 4
            wt /= 4
        t["time-period"] = tp
        t["warmup-time-period"] = wt
        if g.coin(0.1):
            t["warmup-time-period"] = tp * 3  # warm-up longer than the measurement period
        elif g.coin(0.12):
            # a combination the track loader accepts (e.g. a parallel element's default time period on a sub-task with iterations):
            # the time period decides, the iterations do not
            t.pop("warmup-time-period")
            t["iterations"] = g.pick([1, 3, 50])
    else:
        t["size"] = g.randint(1, 15)
        t["progress"] = g.coin(0.5)
    if t["op"] == "sim-poll":
        t.pop("size", None)
        t.pop("progress", None)
    # throttling
    thr = g.weighted([4, 3, 2, 2, 2])
    unit = "ops"
    if thr == 3 and t["op"] != "sim-op":
        thr = 2  # only the plug-in runner reports docs
    if thr:
        interval = g.pick([0.01, 0.05, 0.2, 0.5, 2.0])  # seconds between requests of one client
        T = t["clients"] / interval
        if thr == 1:
            t["target-throughput"] = T
        elif thr == 2:
            t["target-throughput"] = f"{T:.6f} ops/s"
        elif thr == 3:
            unit = "docs"
            t["target-throughput"] = f"{T * 4:.6f} docs/s"
        else:
            t["target-interval"] = 1.0 / T
        if "time-period" in t:
            # with pacing the number of requests is bounded by the interval as well
            pass
        sch = g.weighted([3, 3, 2])
        if sch == 1:
            t["schedule"] = "deterministic"
        elif sch == 2:
            t["schedule"] = "poisson"
    plan = {"task": name, "unit": unit}
    if t["op"] == "sim-op":
        plan["weights"] = g.pick([[1], [1], [4], [1, 5, 2], [3, 3, 7, 7], [2, 0, 2]]) if unit == "ops" or thr != 3 else g.pick([[4], [4, 8], [1, 4, 2]])
        if thr in (1, 2) and g.coin(0.2):
            plan["unit"] = "docs"  # throttles in ops/s but reports docs: documented backwards-compatible conversion
        plan["nwire"] = g.pick([[1], [1], [1, 2, 3], [2]])
        plan["ret"] = g.pick(["dict", "dict", "dict-success", "tuple", "none"])
        if plan["ret"] in ("tuple", "none"):
            plan["weights"] = [w or 1 for w in plan["weights"]]
        if plan["ret"] == "none":
            plan["weights"] = [1]
            plan["unit"] = "ops"
            if thr == 3:
                plan["ret"] = "dict"
                plan["unit"] = "docs"
                plan["weights"] = [4]
        plan["cpu_pre"] = g.pick([None, None, [0.0005], [0.002, 0]])
        plan["cpu_post"] = g.pick([None, None, [0.0005], [0.004, 0]])
        if g.coin(0.25) and plan["ret"].startswith("dict"):
            plan["soft_fail"] = {str(g.randint(0, 6)): 1 for _ in range(g.randint(1, 2))}
        if g.coin(0.05) and plan["ret"].startswith("dict"):
            plan["throughput"] = [g.pick([1.5, 20.0, 0.0])]
    plan["cpu_params"] = g.pick([None, None, [0.0003], [0.003, 0, 0]])
    if prop == "C18" and t["op"] == "sim-op" and g.coin(0.4):
        plan["nest"] = True  # the runner opens request contexts of its own (three levels with the executor's)
        plan["nwire"] = g.pick([[1], [2], [1, 2, 3], [3]])
    if t["op"] == "sim-poll":
        plan["completes_after"] = g.randint(1, 12)
    elif g.coin(0.3):
        # (C05 takes the end of a request from Rally's own record; a time-out while the body is read ends later than any hook says)
        plan["faults"] = {str(g.randint(0, 8)): g.pick(FAULTS if prop != "C05" else [f for f in FAULTS if f != "body-timeout"]) for _ in range(g.randint(1, 3))}
    if "size" in t:
        plan["size"] = t.pop("size")
        plan["progress"] = t.pop("progress")
    if t["op"] == "real":
        for k in ("size", "progress", "faults"):
            plan.pop(k, None)
        t["real"] = gen_real(g, name)
    if t["op"] == "composite":
        t["requests"] = gen_composite(g, name, depth=0)
        t["max-connections"] = g.pick([None, None, 1, 2, 3])
        if g.coin(0.35):
            gen_leaf_faults(g, t["requests"], name)
    t["sim"] = plan
    return t


def gen_real(g, task):
    """one of Rally's own runners that issue several (or no) HTTP requests on behalf of one logical request"""
    kind = g.pick(["scroll-search", "scroll-search", "create-index", "delete-index", "delete-index", "refresh", "force-merge", "cluster-health", "sleep", "search"])
    idx = f"ri-{task}"
    if kind == "scroll-search":
        pages = g.pick([1, 2, 3, 4])
        # first page, further pages, and the clearing of the scroll in the runner's finally block
        return {"type": kind, "params": {"index": idx, "body": {"query": {"match_all": {}}}, "pages": pages, "results-per-page": 2}, "nwire": pages + 1}
    if kind == "create-index":
        n = g.pick([1, 2, 3])
        return {"type": kind, "params": {"index": [f"{idx}-{i}" for i in range(n)], "body": {"settings": {"index.number_of_replicas": 0}}}, "nwire": n}
    if kind == "delete-index":
        n = g.pick([1, 2, 3])
        only = g.coin(0.7)
        return {"type": kind, "params": {"index": [f"{idx}-{i}" for i in range(n)], "only-if-exists": only}, "nwire": 2 * n if only else n}
    if kind == "sleep":
        return {"type": kind, "params": {"duration": g.pick([0.001, 0.05, 0.4])}, "nwire": 0}
    if kind == "cluster-health":
        return {"type": kind, "params": {"request-params": {"wait_for_status": "green"}}, "nwire": 1}
    if kind == "search":
        return {"type": kind, "params": {"index": idx, "body": {"query": {"match_all": {}}}}, "nwire": 1}
    return {"type": kind, "params": {"index": idx}, "nwire": 1}


def gen_composite(g, task, depth, counter=None):
    """a request tree: items are raw-request / sleep leaves or {"stream": [...]}"""
    counter = counter if counter is not None else [0]
    items = []
    n = g.randint(1, 4 if depth == 0 else 3)
    for _ in range(n):
        k = g.weighted([4, 1, 4 if depth < 2 else 0])
        if k == 2:
            items.append({"stream": gen_composite(g, task, depth + 1, counter)})
        elif k == 1:
            counter[0] += 1
            items.append({"operation-type": "sleep", "name": f"sl{counter[0]}", "duration": g.pick([0.001, 0.02, 0.3])})
        else:
            counter[0] += 1
            items.append({"operation-type": "raw-request", "name": f"r{counter[0]}", "path": f"/_c/{task}/r{counter[0]}", "method": "GET", "svc": g.pick([None, 0.001, 0.05, 0.4, 1.2])})
    if depth == 0 and not any("stream" in i for i in items) and g.coin(0.7):
        items.insert(g.choose(len(items) + 1), {"stream": gen_composite(g, task, 1, counter)})
        items.insert(g.choose(len(items) + 1), {"stream": gen_composite(g, task, 1, counter)})
    return items


LEAF_FAULTS = ["http-400", "http-500", "timeout", "body-timeout", "conn-error", "http-503"]


def safe_fault_leaves(items, out=None):
    """leaves whose failure leaves no sibling stream running in the background: a failure in the sequential part of a level
    cancels the streams of that level; a failure inside a stream is only collected by the parent's gather(), which does not
    stop the other streams of that level"""
    out = out if out is not None else []
    streams = [it for it in items if "stream" in it]
    for it in items:
        if "stream" in it:
            if len(streams) == 1:
                safe_fault_leaves(it["stream"], out)
        elif it["operation-type"] == "raw-request":
            out.append(it)
    return out


def gen_leaf_faults(g, items, task):
    """sub-requests that fail (the composite is aborted, the logical request still has a start and an end)"""
    for leaf in composite_leaves(items).values():
        if leaf["operation-type"] == "sleep":
            # the instants of a sleep are only known from the timings of a successful composite
            leaf.update({"operation-type": "raw-request", "path": f"/_c/{task}/{leaf['name']}", "method": "GET", "svc": leaf.pop("duration")})
    cands = safe_fault_leaves(items)
    for leaf in g.sample(cands, min(len(cands), g.pick([1, 1, 2]))):
        kind = g.pick(LEAF_FAULTS)
        first = g.pick([0, 0, 1, 2, 4])
        # (a connection error that outlives the transport's retries is fatal whatever on-error says: at most two in a row)
        run = 1 if kind in ("http-400", "http-500", "timeout", "body-timeout") else (g.pick([1, 2]) if kind == "conn-error" else g.pick([1, 2, 4, 5]))
        leaf["fault"] = {"kind": kind, "at": list(range(first, first + run))}


def generate(prop, g, tier):
    svc = gen_service(g)
    big = tier == "thorough"
    ntasks = g.pick([1, 1, 2, 3] + ([4] if big else []))
    tasks = [gen_task(g, prop, f"t{i}", svc, True, big) for i in range(ntasks)]
    total = sum(t["clients"] for t in tasks)
    cfg = {
        "tasks": tasks,
        "service": svc,
        "jitter": g.pick([0, 0, 1e-6, 2e-5, 2e-5, 1e-3]),
        "rand": g.choose(1 << 30),
        "tie_window": g.pick([0, 0, 1e-4, 5e-3]),
    }
    if g.coin(0.35):
        # responses whose body is streamed: the last chunk arrives after the headers
        cfg["body_delay"] = g.pick([0.0005, 0.01, 0.15, 0.6])
    # ramp-up applies to the whole parallel element and needs warm-up time periods >= ramp-up on every task
    if all("time-period" in t and "warmup-time-period" in t for t in tasks) and g.coin(0.4):
        ramp = g.pick([0.5, 1.0, 2.0])
        for t in tasks:
            t["warmup-time-period"] = max(t["warmup-time-period"], ramp)
        cfg["ramp"] = ramp
    if g.coin(0.25):
        # defaults on the parallel element: tasks inherit them or override them with values of their own (0 included)
        d = None
        if all(("iterations" in t or "warmup-iterations" in t) and "time-period" not in t and t["op"] != "sim-poll" for t in tasks):
            d = {"warmup-iterations": g.pick([1, 2, 3]), "iterations": g.pick([1, 2, 4])}
        elif all("time-period" in t and "warmup-time-period" in t and "iterations" not in t for t in tasks) and not cfg.get("ramp"):
            d = {"warmup-time-period": g.pick([0.3, 1.0]), "time-period": g.pick([0.2, 1.0])}
        if d:
            cfg["par_defaults"] = d
            for t in tasks:
                for k in d:
                    if k not in t or g.coin(0.4):
                        t[k] = d[k]
                        t.setdefault("inherit", []).append(k)
    # split the clients into contiguous worker groups
    nworkers = min(total, g.pick([1, 1, 2, 3] + ([4, 5] if big else [])))
    cuts = sorted(g.sample(range(1, total), nworkers - 1)) if nworkers > 1 else []
    bounds = [0] + cuts + [total]
    cfg["layout"] = [list(range(bounds[i], bounds[i + 1])) for i in range(nworkers)]
    cfg["procs"] = [{"perf_origin": g.pick([0.0, 12345.678, 987654.321, -5000.25]), "wall_skew": g.pick([0.0, 0.0, 1.75, -3.5])} for _ in range(nworkers)]
    if g.coin(0.15):
        cfg["complete_at"] = g.pick([0.0, 0.05, 0.4, 1.5])
    elif g.coin(0.05):
        cfg["cancel_at"] = g.pick([0.0, 0.05, 0.4])
    return cfg


# ---------------------------------------------------------------------------------------------
# track construction
# ---------------------------------------------------------------------------------------------
def strip_svc(items):
    out = []
    for it in items:
        if "stream" in it:
            out.append({"stream": strip_svc(it["stream"])})
        else:
            out.append({k: v for k, v in it.items() if k not in ("svc", "fault")})
    return out


def track_spec(cfg):
    tasks = []
    for t in cfg["tasks"]:
        op = {"name": f"op-{t['name']}", "operation-type": t["op"]}
        if t["op"] == "real":
            op = {"name": f"op-{t['name']}", "operation-type": t["real"]["type"], **t["real"]["params"]}
        elif t["op"] == "composite":
            op["requests"] = strip_svc(t["requests"])
            if t.get("max-connections"):
                op["max-connections"] = t["max-connections"]
            if t["sim"].get("size") is not None or t["sim"].get("cpu_params"):
                pass
        else:
            op["param-source"] = "sim-params"
            op["sim"] = t["sim"]
            op["method"] = "GET"
        task = {"name": t["name"], "operation": op, "clients": t["clients"]}
        for k in ("warmup-iterations", "iterations", "warmup-time-period", "time-period", "target-throughput", "target-interval", "schedule"):
            if k in t and k not in t.get("inherit", []):
                task[k] = t[k]
        tasks.append(task)
    par = {"tasks": tasks}
    par.update(cfg.get("par_defaults") or {})
    if cfg.get("ramp"):
        par["ramp-up-time-period"] = cfg["ramp"]
    return {"indices": [], "challenges": [{"name": "c", "default": True, "schedule": [{"parallel": par}]}]}


def composite_leaves(items, out=None):
    out = out if out is not None else {}
    for it in items:
        if "stream" in it:
            composite_leaves(it["stream"], out)
        else:
            out[it["name"]] = it
    return out


# ---------------------------------------------------------------------------------------------
# the harness
# ---------------------------------------------------------------------------------------------
class LoadgenHarness(Harness):
    gc_discipline = True  # see sim/batch.py run_case
    name = "loadgen"
    properties = ("C04", "C05", "C18")

    def meta(self, prop):
        common_real = [
            "esrally.driver.driver: AsyncIoAdapter.run, AsyncExecutor, execute_single, schedule_for, ScheduleHandle, IterationBased, TimePeriodBased, Sampler, Sample",
            "esrally.driver.scheduler (Unthrottled, UnitAwareScheduler, DeterministicScheduler, PoissonScheduler)",
            "esrally.track.loader.TrackSpecificationReader, track.Task.target_throughput",
            "esrally.client (factory.create_async, RallyAsyncElasticsearch, RequestContextHolder/Manager, static-response seam)",
            "esrally.driver.runner (registered chain, RawRequest, Composite, RequestTiming, Sleep)",
            "elastic-transport AsyncTransport incl. retries, aiohttp ClientSession incl. trace hooks and time-outs (on the virtual loop)",
        ]
        stub = ["Elasticsearch (SimES behind StaticRequest.send / StaticResponse.start)", "OS threads (one virtual loop per simulated worker process)", "track plugin: parameter source 'sim-params' and runner 'sim-op' (registered through Rally's plugin API)"]
        rules = {
            "C04": "cases = one parallel group of 1-3 generated tasks (iteration/time/source bounded, throttled by throughput/interval in ops/s or docs/s or unthrottled, "
            "deterministic/poisson, weights, units, multi-request operations incl. Rally's own runners (scroll-search, create-/delete-index, ...), defaults on the parallel element, injected HTTP errors / transport retries / time-outs before the status line or while the body is read, with on-error=continue) on 1-3 "
            "simulated workers with own clock origins, seeded service times and callback interleaving; non-trivial = throttled and at least one request slower "
            "than its target interval; distinct = distinct digests of the wire history",
            "C05": "cases as for C04, biased to loop-control edges (warm-up 0, 1 iteration, periods shorter than a service time, warm-up longer than the period, "
            "ramp-up, external completion/cancel); non-trivial = a time-based task or a throttled task with at least 3 requests per client; distinct = distinct wire-history digests",
            "C18": "cases = generated composite operations (request tree depth <= 3, sequential items, concurrent streams, sleeps, max-connections) executed by 1-6 "
            "co-located clients next to plain multi-request operations and Rally's own multi-request runners, service times drawn so that completion order differs from start order; non-trivial = a "
            "composite with >= 2 concurrent sub-requests finishing in another order than they started; distinct = distinct wire-history digests",
        }
        return {
            "level": "exploration",
            "rule": rules[prop],
            "assumptions": [
                "clock reads advance virtual time by a seeded 0..J (J in {0,1us,20us,1ms} per run) to model CPU time; parameter sources and runners may consume seeded CPU time",
                "workers of one run share one interpreter (module-level registries are shared)",
                "the harness-owned TraceConfig is observation only",
            ],
            "components_real": common_real,
            "components_stub": stub,
            "quick_budget_s": 40.0,
            "thorough_budget_s": 600.0,
        }

    def chunk_size(self, prop, tier):
        return 12

    def generate(self, prop, g, tier):
        return generate(prop, g, tier)

    def simplify(self, prop, cfg):
        if len(cfg["tasks"]) > 1:
            for i in range(len(cfg["tasks"])):
                c = json.loads(json.dumps(cfg))
                del c["tasks"][i]
                yield relayout(c)
        for i, t in enumerate(cfg["tasks"]):
            if t["clients"] > 1:
                c = json.loads(json.dumps(cfg))
                c["tasks"][i]["clients"] = t["clients"] - 1
                yield relayout(c)
            for k in ("faults", "soft_fail", "cpu_params", "cpu_pre", "cpu_post", "throughput"):
                if t["sim"].get(k):
                    c = json.loads(json.dumps(cfg))
                    c["tasks"][i]["sim"][k] = None
                    yield c
            for k, small in (("iterations", 1), ("warmup-iterations", 0)):
                if t.get(k, small) > small:
                    c = json.loads(json.dumps(cfg))
                    c["tasks"][i][k] = t[k] - 1
                    yield c
            if t["op"] == "composite":
                for cand in shrink_tree(t["requests"]):
                    c = json.loads(json.dumps(cfg))
                    c["tasks"][i]["requests"] = cand
                    yield c
        if len(cfg["layout"]) > 1:
            c = json.loads(json.dumps(cfg))
            c["layout"] = [sum(c["layout"], [])]
            c["procs"] = c["procs"][:1]
            yield c
        for k in ("complete_at", "cancel_at", "ramp"):
            if k in cfg and k != "ramp":
                c = json.loads(json.dumps(cfg))
                del c[k]
                yield c
        if cfg["jitter"]:
            c = json.loads(json.dumps(cfg))
            c["jitter"] = 0
            yield c
        if cfg["service"]["kind"] != "const":
            c = json.loads(json.dumps(cfg))
            c["service"] = {"kind": "const", "v": 0.01}
            yield c

    # ------------------------------------------------------------------------------------
    def execute(self, prop, cfg, ch, tier):
        from esrally import metrics
        from esrally.driver import driver, runner
        from esrally.track import params as track_params

        clock = VClock(noise_stream=ch.stream("clock-noise"), jitter=cfg.get("jitter", 0))
        svc_stream = ch.stream("service-time")
        svc = cfg["service"]
        attempts = {}
        plans = {t["name"]: t["sim"] for t in cfg["tasks"]}
        leaves = {t["name"]: composite_leaves(t["requests"]) for t in cfg["tasks"] if t["op"] == "composite"}
        fired = {}

        def draw_service():
            if svc["kind"] == "const":
                return svc["v"]
            if svc["kind"] == "uniform":
                return svc_stream.uniform(svc["lo"], svc["hi"])
            d = svc["base"]
            return d * svc["factor"] if svc_stream.coin(svc["p"]) else d

        body_delay = cfg.get("body_delay", 0)
        occurrences = {}

        def policy(w):
            parts = w.path.strip("/").split("/")
            d = draw_service()
            bd = body_delay * svc_stream.choose(3) if body_delay else 0.0
            if parts[0] == "_c":
                leaf = leaves[parts[1]][parts[2]]
                if leaf.get("svc") is not None:
                    d = leaf["svc"] * (1 + svc_stream.choose(100) / 1000.0)
                n = occurrences.get((w.client_id, w.path), 0)
                occurrences[(w.client_id, w.path)] = n + 1
                lf = leaf.get("fault")
                if lf and n in lf["at"]:
                    fired["composite-" + lf["kind"]] = fired.get("composite-" + lf["kind"], 0) + 1
                    if lf["kind"] == "timeout":
                        return Outcome(delay=d, kind="timeout")
                    if lf["kind"] == "conn-error":
                        return Outcome(delay=d, kind="conn-error")
                    if lf["kind"] == "body-timeout":
                        return Outcome(delay=d, kind="body-timeout", body_delay=max(bd, 0.002))
                    return Outcome(delay=d, kind="status", status=int(lf["kind"][5:]), body_delay=bd)
                return Outcome(delay=d, body_delay=bd)
            if parts[0] != "_sim":
                return Outcome(delay=d, body_delay=bd)
            task, seq = parts[1], parts[3]
            fault = (plans[task].get("faults") or {}).get(seq)
            n = attempts.get(w.path, 0)
            attempts[w.path] = n + 1
            if fault:
                fired_kind = None
                if fault.startswith("http-") and "x" not in fault:
                    fired_kind = fault
                    out = Outcome(delay=d, kind="status", status=int(fault[5:]), body_delay=bd)
                elif fault.startswith("http-503x"):
                    k = int(fault[9:])
                    if n < k:
                        fired_kind = "http-503-retried" if k <= 3 else "http-503-exhausted"
                        out = Outcome(delay=d, kind="status", status=503, body_delay=bd)
                    else:
                        out = Outcome(delay=d, body_delay=bd)
                elif fault == "connx2":
                    if n < 2:
                        fired_kind = "conn-error-retried"
                        out = Outcome(delay=d, kind="conn-error")
                    else:
                        out = Outcome(delay=d, body_delay=bd)
                elif fault.startswith("disconnectx"):
                    # the server closes the connection: the first time aiohttp re-sends the (idempotent) request itself, the second
                    # time the error surfaces and the transport retries
                    if n < int(fault[11:]):
                        fired_kind = "server-disconnected"
                        out = Outcome(delay=d, kind="disconnect")
                    else:
                        out = Outcome(delay=d, body_delay=bd)
                elif fault == "timeout":
                    fired_kind = "timeout"
                    out = Outcome(delay=d, kind="timeout")
                elif fault == "body-timeout":
                    # status line and headers arrive, then the client's time-out strikes while the body is being read
                    fired_kind = "timeout-while-reading-body"
                    out = Outcome(delay=d, kind="body-timeout", body_delay=max(bd, 0.002))
                elif fault == "timeout-last":
                    # earlier wire requests of this logical request succeed, its last one runs into the client time-out
                    nws = plans[task].get("nwire") or [1]
                    if len(parts) < 5 or int(parts[4]) == nws[int(seq) % len(nws)] - 1:
                        fired_kind = "timeout-after-completed-wire-request" if len(parts) >= 5 and int(parts[4]) > 0 else "timeout"
                        out = Outcome(delay=d, kind="timeout")
                    else:
                        out = Outcome(delay=d, body_delay=bd)
                else:
                    fired_kind = "slow"
                    out = Outcome(delay=min(d * 20, 30.0), body_delay=bd)
                if fired_kind:
                    fired[fired_kind] = fired.get(fired_kind, 0) + 1
                return out
            return Outcome(delay=d, body_delay=bd)

        simes = SimES(clock, policy)
        violations = []

        def bad(oracle, key, msg):
            if len(violations) < 20:
                violations.append({"oracle": oracle, "key": f"{oracle}:{key}", "message": msg})

        with rallyenv.saved_registries(), rallyenv.patched_time(clock), Installed(simes), ScheduleObserver(clock) as obs:
            random.seed(cfg.get("rand", 0))
            SimParamSource.clock = clock
            SimRunner.clock = clock
            SimRunner.nested_obs = []
            runner.register_default_runners(None)
            runner.register_runner("sim-op", SimRunner(), async_runner=True)
            runner.register_runner("sim-poll", SimPollRunner(), async_runner=True)
            track_params.register_param_source_for_name("sim-params", SimParamSource)
            sim = LoadSim(ch, clock)
            obs.trace = sim.trace
            try:
                track = sim.build_track(track_spec(cfg))
            except Exception as e:  # the generator produced an invalid track: a harness bug, not a violation
                raise RuntimeError(f"generated track rejected: {e}") from e
            leaf_tasks = track.challenges[0].schedule[0].tasks
            total_clients = sum(t.clients for t in leaf_tasks)
            allocs = []
            gi = 0
            for t in leaf_tasks:
                for ci in range(t.clients):
                    allocs.append((gi, driver.TaskAllocation(t, ci, gi, total_clients)))
                    gi += 1
            for wi, group in enumerate(cfg["layout"]):
                p = cfg["procs"][wi]
                proc = Proc(f"worker{wi}", perf_origin=p["perf_origin"], wall_skew=p["wall_skew"])
                sim.add_worker(track, proc, [a for a in allocs if a[0] in group], group)
            if "complete_at" in cfg:
                sim.at(cfg["complete_at"], lambda: [w.complete.set() for w in sim.workers])
            if "cancel_at" in cfg:
                sim.at(cfg["cancel_at"], lambda: [w.cancel.set() for w in sim.workers])
            try:
                sim.run(tie_window=cfg.get("tie_window", 0))
            except LoadStuck as e:
                sim.shutdown()
                if e.kind == "budget":
                    # busy, not stuck: nothing is judged
                    return RunResult(digest=hashlib.sha1(f"budget|{json.dumps(cfg, sort_keys=True)}".encode()).hexdigest(), nontrivial=False, violations=[], stats={"steps": sim.steps, "sim_s": clock.now, "faults": {}, "probes": {"inconclusive_step_budget": 1}}, sample=None)
                # every generated task ends by itself (iterations, time period, finite source or external completion)
                return RunResult(digest=hashlib.sha1(f"{e.kind}|{json.dumps(cfg, sort_keys=True)}".encode()).hexdigest(), nontrivial=True, violations=[{"oracle": "liveness", "key": f"liveness:{e.kind}", "message": f"the load generators do not come to an end: {e}"}], stats={"steps": sim.steps, "sim_s": clock.now, "faults": {}, "probes": {}}, sample=None)

        # ------------------------------------------------------------------------------
        # oracles
        # ------------------------------------------------------------------------------
        J = cfg.get("jitter", 0)
        tol = 1e-7 + 64 * J
        Warmup, Normal = metrics.SampleType.Warmup, metrics.SampleType.Normal
        proc_of_client = {}
        for wi, group in enumerate(cfg["layout"]):
            for c in group:
                proc_of_client[c] = sim.workers[wi].proc
        session_client = simes.sessions
        # trace events per (client, path)
        tr = {}
        for kind, session, path, vnow, perf in sim.trace.events:
            c = session_client.get(session)
            e = tr.setdefault((c, path), {"starts": [], "ends": []})
            (e["starts"] if kind == "start" else e["ends"]).append((vnow, perf))
        wires = {}
        for w in simes.log:
            wires.setdefault((w.client_id, w.path), []).append(w)
        unexpected = [w.error for w in sim.workers if w.error is not None]
        for e in unexpected:
            bad("run", f"executor-raised:{type(e).__name__}", f"the load generator raised although no fatal fault was injected: {e!r}")
        samples_by_client = {}
        for w in sim.workers:
            for s in w.samples:
                samples_by_client.setdefault(s.client_id, []).append(s)

        probes = {"throttled_slow_request": 0, "time_based": 0, "warmup_boundary_band": 0, "externally_completed": int("complete_at" in cfg), "cancelled": int("cancel_at" in cfg), "ramp_up": int(bool(cfg.get("ramp"))), "composite_out_of_order": 0, "multi_wire_request": 0, "transport_retry": 0, "weight_change": 0, "behind_schedule": 0}
        nontrivial = False
        external = "complete_at" in cfg or "cancel_at" in cfg
        gi = 0
        for t in cfg["tasks"]:
            plan = t["sim"]
            for ci in range(t["clients"]):
                client = gi
                gi += 1
                h = obs.handles.get((t["name"], ci))
                proc = proc_of_client[client]
                samples = [s for s in samples_by_client.get(client, []) if s.task.name == t["name"]]
                if h is None:
                    bad("schedule", "no-schedule", f"client {client} never started task {t['name']}")
                    continue
                ys = h["yields"]
                ctx = f"task {t['name']} client {client}"
                # ---- one sample per executed request ------------------------------------
                executed = len(ys)
                if "cancel_at" in cfg and executed and len(samples) == executed - 1:
                    executed -= 1  # the cancel flag is read after the schedule yielded, before the request is issued
                if prop in ("C04", "C18") and len(samples) != executed and not unexpected:
                    bad("one-sample-per-request", "count", f"{ctx}: {len(samples)} samples for {executed} executed requests")
                    continue
                if len(samples) != executed:
                    continue
                check_loop_control(prop, cfg, t, ci, client, h, ys, samples, proc, tol, bad, probes, metrics, external)
                reqs = []
                for k, s in enumerate(samples):
                    y = ys[k]
                    if t["op"] == "composite":
                        names = leaves[t["name"]]
                        paths = [l["path"] for l in names.values() if l["operation-type"] == "raw-request"]
                        ev = [(tr.get((client, p)), wires.get((client, p), [])) for p in paths]
                        starts = [e["starts"][k] for e, _ in ev if e and len(e["starts"]) > k]
                        req = {"kind": "composite", "k": k, "paths": paths}
                    elif t["op"] == "real":
                        req = {"kind": "real", "k": k, "paths": [], "nwire": t["real"]["nwire"]}
                    else:
                        seq = k
                        nw = 1 if t["op"] == "raw-request" else (plan.get("nwire") or [1])[seq % len(plan.get("nwire") or [1])]
                        base = f"/_sim/{t['name']}/{ci}/{seq}"
                        paths = [base] if t["op"] == "raw-request" else [f"{base}/{i}" for i in range(nw)]
                        req = {"kind": "plain", "k": k, "paths": paths}
                    reqs.append(req)
                if prop in ("C04", "C05"):
                    recs = [r for r in sim.trace.requests if session_client.get(r["session"]) == client] if t["op"] == "real" else None
                    check_timings(prop, cfg, t, ci, client, h, ys, samples, reqs, tr, wires, proc, tol, bad, probes, plan, recs=recs, marks=sim.sample_marks, log=simes.log)
                if prop == "C18":
                    recs = [r for r in sim.trace.requests if session_client.get(r["session"]) == client]
                    check_contexts(cfg, t, client, samples, reqs, tr, wires, proc, tol, bad, probes, leaves.get(t["name"]), ys=ys, recs=recs, marks=sim.sample_marks)
        if prop == "C04":
            nontrivial = probes["throttled_slow_request"] > 0
        elif prop == "C05":
            nontrivial = probes["time_based"] > 0 or probes["paced_requests"] >= 3 if "paced_requests" in probes else probes["time_based"] > 0
        else:
            nontrivial = probes["composite_out_of_order"] > 0
        probes = {k: int(v > 0) for k, v in probes.items()}
        digest = history_digest(simes, {"n": [len(w.samples) for w in sim.workers]})
        sample = {
            "tasks": [{k: v for k, v in t.items() if k not in ("sim", "requests")} | {"op": t["op"]} for t in cfg["tasks"]],
            "layout": cfg["layout"],
            "service": cfg["service"],
            "wire_requests": len(simes.log),
            "first_wire": [w.as_dict() for w in simes.log[:3]],
        }
        stats = {"steps": sim.steps, "sim_s": clock.now, "faults": fired, "probes": probes}
        return RunResult(digest=digest, nontrivial=nontrivial, violations=[v for v in violations], stats=stats, sample=sample)


def relayout(c):
    total = sum(t["clients"] for t in c["tasks"])
    c["layout"] = [list(range(total))]
    c["procs"] = c["procs"][:1]
    return c


def shrink_tree(items):
    for i in range(len(items)):
        if len(items) > 1:
            yield items[:i] + items[i + 1 :]
        if "stream" in items[i]:
            for sub in shrink_tree(items[i]["stream"]):
                if sub:
                    yield items[:i] + [{"stream": sub}] + items[i + 1 :]
            yield items[:i] + items[i]["stream"] + items[i + 1 :]


# ---------------------------------------------------------------------------------------------
# oracle: loop control, flags, progress, pacing (C05; the sample/flag part also for C04)
# ---------------------------------------------------------------------------------------------
def check_loop_control(prop, cfg, t, ci, client, h, ys, samples, proc, tol, bad, probes, metrics, external):
    Warmup, Normal = metrics.SampleType.Warmup, metrics.SampleType.Normal
    plan = t["sim"]
    ctx = f"task {t['name']} client {client}"
    n = len(samples)
    # sample carries client, task and the sample type the schedule decided
    for k, s in enumerate(samples):
        if s.client_id != client or s.task.name != t["name"]:
            bad("sample-identity", "client-task", f"{ctx}: sample {k} carries client {s.client_id} task {s.task.name}")
            return
        if s.sample_type != ys[k][2]:
            bad("sample-identity", "sample-type", f"{ctx}: sample {k} is {s.sample_type}, the schedule said {ys[k][2]}")
            return
    if prop != "C05":
        return
    types = [s.sample_type for s in samples]
    for k in range(1, n):
        if types[k - 1] == Normal and types[k] == Warmup:
            bad("sample-type-order", "normal-to-warmup", f"{ctx}: sample {k} went back from normal to warm-up")
            break
    # scheduled offsets never decrease
    for k in range(1, len(ys)):
        if ys[k][1] < ys[k - 1][1] - 1e-12:
            bad("schedule-monotone", "decrease", f"{ctx}: scheduled time went from {ys[k - 1][1]} to {ys[k][1]}")
            break
    # progress
    prog = [s.percent_completed for s in samples]
    known = [p for p in prog if p is not None]
    for a, b in zip(known, known[1:]):
        if b < a - 1e-12:
            bad("progress", "decrease", f"{ctx}: progress went from {a} to {b}")
            break
    for p in known:
        if p < 0 or p > 1 + 1e-12:
            bad("progress", "range", f"{ctx}: progress {p} outside [0,1]")
            break
    wi_given, it_given = "warmup-iterations" in t, "iterations" in t
    size = plan.get("size")
    time_based = "time-period" in t
    if t["op"] == "sim-poll":
        # the runner reports completion after K calls.  Explicit (warm-up) iterations make the task iteration-based all the same
        # (whichever ends first ends it); without them the runner alone ends the task and nothing is warm-up
        K = plan["completes_after"]
        w = t.get("warmup-iterations", 0) if (wi_given or it_given) else 0
        want = min(K, w + t.get("iterations", 1)) if (wi_given or it_given) else K
        probes["runner_determines_completion"] = probes.get("runner_determines_completion", 0) + 1
        if not external and n != want:
            bad("iterations", "runner-completion-count", f"{ctx}: executed {n} requests; the runner reports completion after {K} calls, the task specifies warmup-iterations={t.get('warmup-iterations')} iterations={t.get('iterations')}: {want} expected")
            return
        for k, s in enumerate(samples):
            if (s.sample_type == Warmup) != (k < w):
                bad("warmup-flag", "runner-completion", f"{ctx}: request {k} flagged {s.sample_type} with warmup-iterations={w if (wi_given or it_given) else None} (runner reports completion after {K} calls)")
                return
        # (when the iterations end a task whose runner also reports progress, Rally shows the runner's progress, which is below 1;
        # the property does not range over such runners, so only the unambiguous case is judged)
        if not external and samples and K <= want and samples[-1].percent_completed != 1.0:
            bad("progress", "final-not-1", f"{ctx}: last progress is {samples[-1].percent_completed}, not 1.0 (runner reports completion)")
        return
    if not time_based and (wi_given or it_given or size is None):
        # iteration based
        w = t.get("warmup-iterations", 0)
        if it_given:
            it = t["iterations"]
        elif size is None:
            it = 1
        else:
            it = None  # the parameter source ends the task
        if it is not None and size is not None and size < w + it:
            # the parameter source is exhausted before the requested number of iterations
            probes["source_shorter_than_iterations"] = probes.get("source_shorter_than_iterations", 0) + 1
            if not external and n != size:
                bad("iterations", "source-count", f"{ctx}: executed {n} requests, the parameter source provides {size} (fewer than warmup-iterations + iterations = {w + it})")
        elif it is not None:
            want = w + it
            if size is not None:
                probes["iterations_on_finite_source"] = probes.get("iterations_on_finite_source", 0) + 1
            if not external:
                if n != want:
                    bad("iterations", "count", f"{ctx}: executed {n} requests, warmup-iterations + iterations = {want}")
                    return
                if samples and samples[-1].percent_completed != 1.0:
                    bad("progress", "final-not-1", f"{ctx}: last progress is {samples[-1].percent_completed}, not 1.0")
            elif n > want:
                bad("iterations", "count-more", f"{ctx}: executed {n} requests, more than warmup-iterations + iterations = {want}")
        else:
            want = size
            if size is not None and not external and n != min(size, 10**9):
                bad("iterations", "source-count", f"{ctx}: executed {n} requests, the parameter source provides {size}")
        for k, s in enumerate(samples):
            if (s.sample_type == Warmup) != (k < w):
                bad("warmup-flag", "iteration", f"{ctx}: request {k} flagged {s.sample_type} with warmup-iterations={w}")
                break
    elif not time_based and size is not None:
        # source bounded (no iterations given): all requests of the source, all normal
        if not external and n != size:
            bad("iterations", "source-count", f"{ctx}: executed {n} requests, the parameter source provides {size}")
        if any(s.sample_type != Normal for s in samples):
            bad("warmup-flag", "source-bounded", f"{ctx}: warm-up sample in a task without warm-up")
    else:
        probes["time_based"] += 1
        wt = t.get("warmup-time-period", 0) or 0
        tp = t["time-period"]
        start = h["start_perf"]
        D = start + wt + tp
        cpu_post = plan.get("cpu_post") or [0]
        # the loop control reads the clock after request k at n_k in [re_k, re_k + over_k]
        re = [s.request_start + s.service_time for s in samples]
        over = [(cpu_post[k % len(cpu_post)] if t["op"] == "sim-op" else 0) + tol for k in range(n)]
        for k in range(1, n):
            if re[k - 1] >= D + 1e-9:
                bad("time-period", "issued-after-deadline", f"{ctx}: request {k} was issued although request {k - 1} completed {re[k - 1] - D:.6f}s after warmup + time period had elapsed")
                break
        if not external and n and not (size is not None and n >= size):
            if re[-1] + over[-1] < D:
                bad("time-period", "stopped-early", f"{ctx}: stopped after request {n - 1}, which completed {D - re[-1]:.6f}s before warmup + time period elapsed")
        for k, s in enumerate(samples):
            if k == 0:
                expect = Warmup if wt > 0 else Normal
                if s.sample_type != expect:
                    bad("warmup-flag", "first", f"{ctx}: first request flagged {s.sample_type}, warmup-time-period={wt}")
                    break
                continue
            lo, hi = re[k - 1] - start, re[k - 1] + over[k - 1] - start
            if hi < wt and s.sample_type != Warmup:
                bad("warmup-flag", "normal-too-early", f"{ctx}: request {k} flagged normal although the previous request completed {wt - lo:.6f}s before the warm-up period ended")
                break
            if lo >= wt + 1e-9 and s.sample_type != Normal:
                bad("warmup-flag", "warmup-too-late", f"{ctx}: request {k} flagged warm-up although the previous request completed {lo - wt:.6f}s after the warm-up period ended")
                break
            if lo < wt <= hi:
                probes["warmup_boundary_band"] += 1
    # ramp-up
    ramp = cfg.get("ramp")
    if ramp and samples:
        delay = ramp * (h["global_index"] / h["total_clients"])
        first = samples[0].request_start
        if first < h["start_perf"] + delay - tol:
            bad("ramp-up", "too-early", f"{ctx}: first request {first - h['start_perf']:.6f}s after start, ramp-up delay is {delay:.6f}s")
    # pacing
    thr = t.get("target-throughput")
    ti = t.get("target-interval")
    if thr is not None or ti is not None:
        if ti is not None:
            T, unit = 1.0 / ti, "ops/s"
        elif isinstance(thr, str):
            T, unit = float(thr.split()[0]), thr.split()[1]
        else:
            T, unit = float(thr), "ops/s"
        C = t["clients"]
        if t.get("schedule") != "poisson":
            s_ref = 0.0
            throttled = False
            wait = None
            first = True
            cur = None
            for k in range(len(ys)):
                expect = (s_ref + wait) if throttled else 0
                if abs(ys[k][1] - expect) > 1e-9 * max(1.0, abs(expect)):
                    bad("pacing", "offset", f"{ctx}: request {k} scheduled at offset {ys[k][1]}, expected {expect} (T={T} {unit}, clients={C})")
                    break
                s_ref = expect
                if k < n:
                    wgt, u = samples[k].total_ops, samples[k].total_ops_unit
                    if wgt > 0 and (first or cur != wgt):
                        eff = wgt
                        if f"{u}/s" != unit and unit == "ops/s":
                            eff = 1
                        if not first and cur != wgt:
                            probes["weight_change"] += 1
                        first = False
                        cur = eff
                        wait = 1.0 / (T / C / eff)
                        throttled = True
            probes["paced_requests"] = probes.get("paced_requests", 0) + max(0, len(ys) - 1)


# ---------------------------------------------------------------------------------------------
# oracle: the three timings (C04)
# ---------------------------------------------------------------------------------------------
def span_of(client, paths, k_of_path, tr, wires):
    """(first start perf, last end perf, first start v, last end v, wire list) of a logical request"""
    starts, ends, ws = [], [], []
    for p in paths:
        e = tr.get((client, p))
        if e:
            starts += e["starts"]
            ends += e["ends"]
        ws += wires.get((client, p), [])
    if not starts or not ends:
        return None
    s = min(starts)
    e = max(ends)
    return s[1], e[1], s[0], e[0], ws


def span_real(client, k, ys, recs, marks, s, log):
    """like span_of, for a runner of Rally's own: the HTTP requests the client started in this turn of the schedule"""
    lo_idx = ys[k][4]
    hi_idx = ys[k + 1][4] if k + 1 < len(ys) else float("inf")
    final_idx = marks.get(id(s), float("inf"))
    mine = [r for r in recs if lo_idx <= r["start_idx"] < hi_idx]
    done = [(r["start"], max((e for e in r["ends"] if e[2] < final_idx), key=lambda e: e[1])) for r in mine if any(e[2] < final_idx for e in r["ends"])]
    if not done or len(done) != len(mine):
        return None
    a = min((st for st, _ in done), key=lambda st: st[1])
    b = max((en for _, en in done), key=lambda en: en[1])
    # without faults every HTTP request the hooks saw is one request the cluster saw, in the same order
    cw = [w for w in log if w.client_id == client]
    if len(cw) != len(recs):
        return None
    ws = [cw[i] for i, r in enumerate(recs) if lo_idx <= r["start_idx"] < hi_idx]
    return a[1], b[1], a[0], b[0], ws


def check_timings(prop, cfg, t, ci, client, h, ys, samples, reqs, tr, wires, proc, tol, bad, probes, plan, recs=None, marks=None, log=None):
    if prop != "C04":
        return
    ctx0 = f"task {t['name']} client {client}"
    start_perf = h["start_perf"]
    thr_interval = None
    for k, s in enumerate(samples):
        ctx = f"{ctx0} request {k}"
        req = reqs[k]
        sp = span_real(client, k, ys, recs or [], marks or {}, s, log or []) if req["kind"] == "real" else span_of(client, req["paths"], k, tr, wires)
        if req["kind"] == "real" and sp is not None and len(sp[4]) > 1:
            probes["real_runner_multi_request"] = 1
        cpu_pre = (plan.get("cpu_pre") or [0])[k % len(plan.get("cpu_pre") or [0])] if t["op"] == "sim-op" else 0
        cpu_post = (plan.get("cpu_post") or [0])[k % len(plan.get("cpu_post") or [0])] if t["op"] == "sim-op" else 0
        if s.service_time < 0:
            bad("service-time", "negative", f"{ctx}: service_time {s.service_time}")
            return
        if s.processing_time < s.service_time - 1e-12:
            bad("processing-time", "lt-service", f"{ctx}: processing_time {s.processing_time} < service_time {s.service_time}")
            return
        if sp is not None:
            rs, re, rs_v, re_v, ws = sp
            if len(ws) > 1:
                probes["multi_wire_request"] += 1
                if any(w.outcome in ("conn-error",) or w.status == 503 for w in ws):
                    probes["transport_retry"] += 1
            if abs(s.request_start - rs) > 1e-9 or abs(s.service_time - (re - rs)) > 1e-9:
                bad("service-time", "span", f"{ctx}: service_time {s.service_time} from request_start {s.request_start}; the wire requests span {re - rs} from {rs}")
                return
            first_send = min(w.t_send for w in ws)
            # (a time-out while the body is read: the last thing the client has seen of the response are its headers)
            last_recv = max((w.t_headers if w.outcome == "body-timeout" else w.t_recv) for w in ws if w.t_recv is not None)
            body_timeout = any(w.outcome == "body-timeout" for w in ws)
            if not (-1e-9 <= first_send - rs_v <= tol) or not (-1e-9 <= re_v - last_recv <= tol):
                bad("service-time", "grounding", f"{ctx}: hooks fired at [{rs_v}, {re_v}] but the cluster saw send {first_send} receive {last_recv}")
                return
            if s.processing_time > s.service_time + cpu_pre + cpu_post + tol and not body_timeout:
                bad("processing-time", "too-large", f"{ctx}: processing_time {s.processing_time} exceeds service_time {s.service_time} + client overhead {cpu_pre + cpu_post}")
                return
            wall_start = EPOCH + rs_v + proc.wall_skew
            if not (-tol - cpu_pre - 2e-6 <= s.absolute_time - wall_start <= 2e-6):  # a double near 1.7e9 resolves 0.24 us
                bad("issue-time", "absolute-time", f"{ctx}: absolute_time {s.absolute_time} but the request was issued at wall clock {wall_start}")
                return
        else:
            rs, re = s.request_start, s.request_start + s.service_time
        sched = ys[k][1]
        if sched > 0:
            abs_sched = start_perf + sched
            if rs < abs_sched - tol:
                bad("throttle", "issued-early", f"{ctx}: issued {abs_sched - rs:.6f}s before its scheduled time (offset {sched})")
                return
            want = re - abs_sched
            if abs(s.latency - want) > tol:
                bad("latency", "throttled", f"{ctx}: latency {s.latency}, response end minus scheduled time is {want}")
                return
            if s.latency < s.service_time - 1e-9:
                bad("latency", "lt-service", f"{ctx}: latency {s.latency} < service_time {s.service_time}")
                return
            if rs > abs_sched + tol + 1e-4:
                probes["behind_schedule"] += 1
            if k + 1 < len(ys) and s.service_time > (ys[k + 1][1] - sched) > 0:
                probes["throttled_slow_request"] += 1
        else:
            if s.latency != s.service_time:
                bad("latency", "unthrottled", f"{ctx}: unthrottled request has latency {s.latency} != service_time {s.service_time}")
                return
        if abs(s.time_period - (re - start_perf)) > tol:
            bad("sample-fields", "time-period", f"{ctx}: time_period {s.time_period}, response end minus task start is {re - start_perf}")
            return
        # weight / unit / success as the runner reported them
        if t["op"] == "sim-op":
            seq = k
            fault = (plan.get("faults") or {}).get(str(seq))
            hard = fault in ("http-400", "http-404", "http-500", "http-503x4", "timeout", "timeout-last", "body-timeout")
            soft = str(seq) in (plan.get("soft_fail") or {})
            w_plan = (plan.get("weights") or [1])[seq % len(plan.get("weights") or [1])]
            want_ops = 0 if (hard or soft) else w_plan
            want_unit = "ops" if hard else plan.get("unit", "ops")
            if s.total_ops != want_ops or s.total_ops_unit != want_unit:
                bad("sample-fields", "ops", f"{ctx}: sample has {s.total_ops} {s.total_ops_unit}, the runner reported {want_ops} {want_unit} (fault {fault})")
                return
            ok = s.request_meta_data.get("success")
            if ok != (not (hard or soft)):
                bad("sample-fields", "success", f"{ctx}: success={ok} with fault {fault} soft_fail={soft}")
                return


# ---------------------------------------------------------------------------------------------
# oracle: request contexts (C18)
# ---------------------------------------------------------------------------------------------
def check_contexts(cfg, t, client, samples, reqs, tr, wires, proc, tol, bad, probes, leaves, ys=None, recs=None, marks=None):
    ctx0 = f"task {t['name']} client {client}"
    recs = recs or []
    marks = marks or {}
    path_leaf = {leaf["path"]: name for name, leaf in (leaves or {}).items() if leaf["operation-type"] == "raw-request"}
    has_sleep = any(leaf["operation-type"] == "sleep" for leaf in (leaves or {}).values())
    faulted = [leaf for leaf in (leaves or {}).values() if leaf.get("fault")]
    safe = t["op"] != "composite" or all(any(l is f for l in safe_fault_leaves(t["requests"])) for f in faulted)
    for k, s in enumerate(samples):
        ctx = f"{ctx0} request {k}"
        req = reqs[k]
        if req["kind"] == "plain":
            sp = span_of(client, req["paths"], k, tr, wires)
            if sp is None:
                continue
            rs, re = sp[0], sp[1]
            if abs(s.request_start - rs) > 1e-9 or abs(s.service_time - (re - rs)) > 1e-9:
                bad("request-span", "plain", f"{ctx}: recorded [{s.request_start}, {s.request_start + s.service_time}], its wire requests span [{rs}, {re}]")
                return
            if t["sim"].get("nest") and not (t["sim"].get("faults") or {}).get(str(k)):
                # every context the runner opened itself spans exactly the wire requests issued inside it
                base = req["paths"][0].rsplit("/", 1)[0]
                probes["runner_opened_nested_contexts"] = 1
                for path, i, a, b in SimRunner.nested_obs:
                    if path != base:
                        continue
                    inside = [p for p in req["paths"] if i is None or p == f"{base}/{i}"]
                    spi = span_of(client, inside, k, tr, wires)
                    if spi is None:
                        continue
                    if a is None or b is None or abs(a - spi[0]) > 1e-9 or abs(b - spi[1]) > 1e-9:
                        bad("nested-context", "span", f"{ctx}: the runner's own context around {'all wire requests' if i is None else f'wire request {i}'} recorded [{a}, {b}], the wire requests inside it span [{spi[0]}, {spi[1]}]")
                        return
            continue
        if req["kind"] == "real":
            # one of Rally's own runners: everything this client sent between this turn of the schedule and the next one was sent
            # on behalf of this logical request
            real = t["real"]
            lo_idx = ys[k][4]
            hi_idx = ys[k + 1][4] if k + 1 < len(ys) else float("inf")
            final_idx = marks.get(id(s), float("inf"))
            mine = [r for r in recs if lo_idx <= r["start_idx"] < hi_idx]
            rec_end = s.request_start + s.service_time
            if real["type"] == "sleep":
                d = real["params"]["duration"]
                if mine:
                    bad("real-runner", "unexpected-requests", f"{ctx}: a sleep issued {len(mine)} HTTP requests")
                    return
                if s.service_time < d - 1e-9 or s.service_time > d + 0.05 + tol:
                    bad("request-span", "sleep", f"{ctx}: a sleep of {d}s is recorded with a service time of {s.service_time}s")
                    return
                continue
            if len(mine) != req["nwire"]:
                # not a timing matter; the oracle below still holds for whatever was sent
                probes["real_runner_other_request_count"] = 1
            done = [(r["start"][1], max(e[1] for e in r["ends"] if e[2] < final_idx)) for r in mine if any(e[2] < final_idx for e in r["ends"])]
            if not done or len(done) != len(mine):
                continue
            if len(done) > 1:
                probes["real_runner_multi_request"] = 1
            lo, hi = min(a for a, _ in done), max(b for _, b in done)
            if abs(s.request_start - lo) > 1e-9:
                bad("request-span", "real-runner-start", f"{ctx}: {real['type']} recorded request_start {s.request_start}, the earliest of its {len(done)} HTTP requests started at {lo}")
                return
            if abs(rec_end - hi) > 1e-9:
                bad("request-span", "real-runner-end", f"{ctx}: {real['type']} recorded request_end {rec_end}, the latest of its {len(done)} HTTP requests ended at {hi} ({[r['path'] for r in mine]})")
                return
            continue
        # composite: the HTTP requests this client started between this turn of the schedule and the next one
        lo_idx = ys[k][4]
        hi_idx = ys[k + 1][4] if k + 1 < len(ys) else float("inf")
        final_idx = marks.get(id(s), float("inf"))  # trace events that had happened when the sample was recorded
        mine = [r for r in recs if lo_idx <= r["start_idx"] < hi_idx and r["path"] in path_leaf]
        if not mine:
            continue
        spans = {}
        for r in mine:
            ends = [e for e in r["ends"] if e[2] < final_idx]
            if not ends:
                continue  # still in flight when the logical request ended (cancelled after a failure)
            name = path_leaf[r["path"]]
            a, b = r["start"][1], max(e[1] for e in ends)
            if name in spans:  # the transport retried: the sub-request spans all attempts
                a, b = min(a, spans[name][0]), max(b, spans[name][1])
                probes["composite_retried_sub_request"] = 1
            spans[name] = (a, b)
        in_flight_starts = [r["start"][1] for r in mine if r["start_idx"] < final_idx]
        timings = {}
        for d in s._dependent_timing or []:
            if d is None:
                continue
            dt = d.get("dependent_timing")
            if dt:
                timings[dt["operation"]] = dt
        failed = not s._dependent_timing
        if failed:
            probes["composite_failed_sub_request"] = 1
        if not failed:
            for name, (a, b) in spans.items():
                dt = timings.get(name)
                if dt is None:
                    bad("dependent-timing", "missing", f"{ctx}: no timing recorded for sub-request {name}")
                    return
                if abs(dt["request_start"] - a) > 1e-9 or abs(dt["request_end"] - b) > 1e-9 or abs(dt["service_time"] - (b - a)) > 1e-9:
                    bad("dependent-timing", "span", f"{ctx}: sub-request {name} recorded [{dt['request_start']}, {dt['request_end']}], its wire request spans [{a}, {b}]")
                    return
        # sleeps are timed by the client hooks too; their instants come from the dependent timings themselves
        all_spans = list(spans.values())
        for name, leaf in leaves.items():
            if leaf["operation-type"] == "sleep" and name in timings:
                dt = timings[name]
                if dt["request_end"] - dt["request_start"] < leaf["duration"] - 1e-9:
                    bad("dependent-timing", "sleep", f"{ctx}: sleep {name} of {leaf['duration']}s recorded as {dt['request_end'] - dt['request_start']}s")
                    return
                all_spans.append((dt["request_start"], dt["request_end"]))
        if not all_spans:
            continue
        lo = min([a for a, _ in all_spans] + in_flight_starts)
        hi = max(b for _, b in all_spans)
        order_start = sorted(spans, key=lambda n: spans[n][0])
        order_end = sorted(spans, key=lambda n: spans[n][1])
        if order_start != order_end:
            probes["composite_out_of_order"] += 1
        rec_end = s.request_start + s.service_time
        if failed and (has_sleep or not safe):
            # instants of sleeps are unknown without timings / streams that keep running in the background: bounds only
            if s.request_start > lo + 1e-9:
                bad("request-span", "start-not-earliest", f"{ctx}: failed composite request_start {s.request_start} is later than the earliest sub-request start {lo}")
                return
            if rec_end < hi - 1e-9 and safe:
                bad("request-span", "end-not-latest", f"{ctx}: failed composite request_end {rec_end} is earlier than the latest sub-request end {hi} seen before the sample was recorded")
                return
            continue
        if abs(s.request_start - lo) > 1e-9:
            who = [n for n, (a, b) in spans.items() if abs(a - s.request_start) <= 1e-9]
            bad("request-span", "start-not-earliest", f"{ctx}: composite request_start {s.request_start} is not the earliest sub-request start {lo} (it is the start of {who}); {len(all_spans)} sub-requests" + ("; a sub-request failed" if failed else ""))
            return
        if abs(rec_end - hi) > 1e-9:
            bad("request-span", "end-not-latest", f"{ctx}: composite request_end {rec_end} is not the latest sub-request end {hi}" + ("; a sub-request failed" if failed else ""))
            return
    # leakage between clients is covered by the equalities above: every recorded instant must be one of the client's own


HARNESS = LoadgenHarness()
