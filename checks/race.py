"""C01 / C07 / C09 / C11 -- whole-race simulation (DESIGN.md 5.1, 5.6, 5.7, 5.8)."""
from __future__ import annotations

import json
import os
import pickle
import shutil
import tempfile
import zlib

from checks.loadgen import composite_leaves, gen_composite, gen_service, mean_service, strip_svc
from sim.batch import Harness, RunResult
from sim.racesim import RaceSim, leaf_tasks, race_digest
from sim.simes import Outcome

HOSTS = ["localhost", "127.0.1.1", "127.0.1.2"]
OPS = ["sim-op", "sim-op", "sim-op", "sim-op", "raw-request", "raw-request", "raw-request", "bulk", "sleep", "cluster-health", "refresh", "composite"]
TAGS = ["x", "y", "z"]


# ---------------------------------------------------------------------------------------------
# generation
# ---------------------------------------------------------------------------------------------
def gen_task(g, name, svc, big, role="normal"):
    """role: normal | completing (short, must finish) | eternal (long sibling cut by completed-by)"""
    t = {"name": name, "clients": g.pick([1, 1, 2, 2, 3, 4] + ([5, 6] if big else []))}
    t["op"] = g.pick(OPS) if role == "normal" else g.pick(["sim-op", "sim-op", "raw-request"])
    t["tags"] = g.sample(TAGS, g.choose(3))
    ms = mean_service(svc)
    if role == "eternal":
        if g.coin(0.5):
            t["time-period"] = g.pick([300, 600])
            t["warmup-time-period"] = 0
        else:
            t["iterations"] = 100000
        if g.coin(0.6) or mean_service(svc) < 0.02:
            # (an unthrottled eternal task with a fast cluster only burns simulation steps until it is cut)
            t["target-interval"] = g.pick([0.05, 0.2, 1.0])
        t["sim"] = {"task": name, "unit": "ops"}
        return t
    if t["op"] == "bulk":
        t["docs"] = g.randint(max(3, t["clients"]), 60)
        t["bulk_size"] = g.pick([1, 2, 5, 10])
        return t
    if t["op"] == "sleep":
        t["duration"] = g.pick([0.05, 0.3, 1.0])
        t["iterations"] = g.pick([1, 2, 3])
        return t
    if t["op"] in ("cluster-health", "refresh"):
        t["iterations"] = g.pick([1, 2, 4])
        if g.coin(0.3):
            t["warmup-iterations"] = 1
        return t
    if t["op"] == "composite":
        t["iterations"] = g.pick([1, 2, 3])
        t["warmup-iterations"] = g.pick([0, 0, 1])
        t["clients"] = min(t["clients"], 3)
        t["requests"] = strip_svc(gen_composite(g, name, depth=0))
        for leaf in composite_leaves(t["requests"]).values():
            if leaf["operation-type"] == "sleep":
                leaf["duration"] = min(leaf["duration"], 0.02)
        return t
    loop = g.weighted([6, 3, 2]) if role == "normal" else 0
    if loop == 0:
        t["iterations"] = g.pick([1, 1, 2, 3, 5, 8] + ([12] if big else []))
        t["warmup-iterations"] = g.pick([0, 0, 1, 2, 3])
    elif loop == 1:
        # the track schema wants whole seconds; pacing keeps the number of requests bounded
        tp = g.pick([1, 1, 2, 3])
        t["time-period"] = tp
        t["warmup-time-period"] = g.pick([0, 0, 1])
        if (tp + 1) / max(ms, 1e-4) > 40:
            t["target-interval"] = g.pick([0.1, 0.25, 0.5])
    else:
        size = g.randint(1, 10)
    plan = {"task": name, "unit": "ops"}
    if loop == 2:
        plan["size"] = size
    if g.coin(0.3) and "time-period" not in t:
        t["target-interval"] = g.pick([0.02, 0.1, 0.5])
    if t["op"] == "sim-op":
        plan["nwire"] = g.pick([[1], [1], [1, 2], [2]])
        plan["weights"] = g.pick([[1], [1], [3], [1, 4]])
        plan["cpu_post"] = g.pick([None, None, [0.001]])
    plan["cpu_params"] = g.pick([None, None, [0.0005]])
    t["sim"] = plan
    return t


def gen_schedule(g, tier, svc, eternal_ok=True):
    big = tier == "thorough"
    n = g.pick([1, 2, 2, 3, 3, 4] + ([5, 6] if big else []))
    sched = []
    k = 0
    for _ in range(n):
        if g.coin(0.4):
            cb = g.weighted([6, 3, 2])  # none / named / any
            ntasks = g.pick([2, 2, 3] + ([4] if big else []))
            tasks = []
            if cb == 1:
                tasks.append(gen_task(g, f"t{k}", svc, big, "completing"))
                k += 1
                for _ in range(ntasks - 1):
                    tasks.append(gen_task(g, f"t{k}", svc, big, g.pick(["eternal", "eternal", "normal"]) if eternal_ok else "normal"))
                    k += 1
                name = tasks[0]["name"]
                p = {"tasks": tasks, "completed-by": name}
                if g.coin(0.25):
                    # over-commit: the completing task stays in the first row (a completing task queued behind an eternal one on
                    # the same client can never start; that is a property of such a track, not of Rally)
                    total = sum(t["clients"] for t in tasks)
                    p["clients"] = g.randint(tasks[0]["clients"], max(tasks[0]["clients"], total - 1))
                else:
                    p["tasks"] = g.shuffle(tasks)
            else:
                for _ in range(ntasks):
                    tasks.append(gen_task(g, f"t{k}", svc, big, "normal"))
                    k += 1
                p = {"tasks": tasks}
                if cb == 2:
                    p["completed-by"] = "any"
            if cb != 1 and g.coin(0.25):
                total = sum(t["clients"] for t in tasks)
                p["clients"] = g.randint(1, max(1, total - 1))  # over-commit: several rows between two join points
            sched.append({"parallel": p})
        else:
            sched.append({"task": gen_task(g, f"t{k}", svc, big, "normal")})
            k += 1
    return sched


def gen_knobs(g, prop):
    k = {
        "worker_wakeup": g.pick([5, 5, 0.5, 1, 2]),
        "driver_wakeup": g.pick([1, 1, 0.3]),
        "post_process": g.pick([30, 30, 1, 2, 3]) if prop != "C07" else g.pick([30, 1, 1, 2, 3]),
        "stall_p": g.pick([0, 0, 0.02, 0.1]),
        "p_preempt": g.pick([0, 0.1, 0.5]) if prop != "C07" else g.pick([0, 0.3, 0.6]),
        "tie_window": g.pick([0, 0, 1e-3]),
        "jitter": g.pick([0, 0, 1e-6, 2e-5]),
    }
    late = g.pick([2e-3, 2e-3, 2e-3, 0.05, 0.5])
    if late != 2e-3:
        k["timer_late_max"] = late  # wake-ups of different workers drift apart (they are started in phase by the common start time)
    return k


def generate(prop, g, tier):
    svc = gen_service(g)
    if svc["kind"] == "uniform" and svc["lo"] >= 0.2:
        svc = {"kind": "uniform", "lo": 0.05, "hi": 0.6}
    # with task filters the completing task may be filtered out; an eternal sibling would then (correctly) never end
    cfg = {"schedule": gen_schedule(g, tier, svc, eternal_ok=prop != "C11"), "service": svc, "rand": g.choose(1 << 30)}
    nh = g.pick([1, 1, 2, 3])
    cfg["hosts"] = HOSTS[:nh] if g.coin(0.8) else HOSTS[1 : 1 + nh]
    cfg["cores"] = g.pick([1, 2, 2, 3, 4])
    cfg["host_clocks"] = [{"perf_origin": g.pick([0.0, 1000.5, -250000.25, 777777.0]), "wall_skew": g.pick([0.0, 0.0, 2.5, -4.0])} for _ in range(nh)]
    cfg["on_error"] = "continue"
    cfg["knobs"] = gen_knobs(g, prop)
    if prop == "C07" and g.coin(0.15):
        cfg["knobs"]["downsample"] = g.pick([2, 3])
    elif prop == "C07" and g.coin(0.1):
        cfg["knobs"]["queue_size"] = g.pick([1, 3])
    if prop == "C07" and g.coin(0.08):
        # one drain of a worker's sampler holds well over a thousand samples (a fast task between two wake-ups)
        cfg["service"] = {"kind": "const", "v": 0.0005}
        cfg["knobs"]["worker_wakeup"] = 5
        burst = {"name": "tburst", "op": "raw-request", "clients": g.pick([1, 2]), "iterations": g.pick([1100, 1600, 2300]), "warmup-iterations": 0, "tags": [], "sim": {"task": "tburst", "unit": "ops", "cpu_params": None}}
        cfg["schedule"].insert(g.choose(len(cfg["schedule"]) + 1), {"task": burst})
    if prop == "C07" and g.coin(0.3):
        # tasks of one parallel element that run the same operation (same operation name): their records stay their own
        for ei, el in enumerate(cfg["schedule"]):
            if "parallel" in el:
                same = [t for t in el["parallel"]["tasks"] if t["op"] in ("sim-op", "raw-request") and "sim" in t]
                if len(same) >= 2:
                    for t in g.sample(same, g.pick([2, 2, len(same)])):
                        t["opname"] = f"shared-op-{ei}"
    if prop == "C07" and g.coin(0.4):
        # some requests fail (on-error=continue): their records say so, the records of the other requests do not
        cands = [t for _, _, t in leaf_tasks(cfg["schedule"]) if t["op"] in ("sim-op", "raw-request") and "sim" in t]
        if cands:
            cfg["req_errors"] = {t["name"]: {"seqs": sorted(g.sample(range(6), g.pick([1, 1, 2, 3]))), "status": g.pick([400, 404, 500])} for t in g.sample(cands, min(len(cands), g.pick([1, 1, 2])))}
    if prop == "C11":
        gen_filter_bait(g, cfg)
        gen_filters(g, cfg)
    if prop == "C09":
        gen_fault(g, cfg)
    return cfg


FILTER_TAGS = ["x", "y", "z", "xy", "x-y", "yz"]


def gen_filter_bait(g, cfg):
    """things a filter must not be confused by: a tag given as a plain string, tags that contain other tags, operations that
    are shared between tasks or named like another task"""
    tasks = [t for _, _, t in leaf_tasks(cfg["schedule"])]
    for t in tasks:
        k = g.weighted([5, 3, 2])
        if k == 1:
            t["tags"] = g.sample(FILTER_TAGS, g.choose(3))
        elif k == 2:
            t["tags"] = g.pick(FILTER_TAGS)  # a single tag may be given as a string
        if g.coin(0.3):
            t["opname"] = g.pick([x["name"] for x in tasks if x is not t] + ["shared-op"])
        if t["op"] == "sim-op" and g.coin(0.35):
            t["optype"] = g.pick(["sim_op", "sim-op_v2"])  # a user-defined operation type is any string, underscores included
    if g.coin(0.3):
        cfg["decoy"] = {"first": g.coin(0.6), "tags": {t["name"]: g.pick([None, g.sample(FILTER_TAGS, g.choose(3)), g.pick(FILTER_TAGS)]) for t in tasks}}


def gen_filters(g, cfg):
    tasks = [t for _, _, t in leaf_tasks(cfg["schedule"])]
    pars = [el["parallel"] for el in cfg["schedule"] if "parallel" in el]
    filters = []
    n = g.randint(1, 3)
    for _ in range(n):
        k = g.weighted([4, 3, 3, 3])
        if k == 0:
            t = g.pick(tasks)
            filters.append(t["opname"] if "opname" in t and g.coin(0.4) else t["name"])
        elif k == 1:
            t = g.pick(tasks)
            ty = t.get("optype", t["op"])
            if g.coin(0.12):
                ty = ty.replace("-", "_") if "-" in ty and g.coin(0.5) else ty.replace("_", "-")  # the type of no task, or of another one
            filters.append("type:" + ty)
        elif k == 2:
            filters.append("tag:" + g.pick(FILTER_TAGS))
        elif pars:
            # all tasks of one parallel element
            p = g.pick(pars)
            filters += [t["name"] for t in p["tasks"]]
        else:
            filters.append(g.pick(tasks)["name"])
    cfg["include" if g.coin(0.45) else "exclude"] = sorted(set(filters))


ANCHORS = ["BenchmarkComplete", "BenchmarkComplete", "TaskFinished", "JoinPointReached", "CompleteCurrentTask", "Drive", "StartWorker", "UpdateSamples", "PreparationComplete", "StartBenchmark"]


def gen_anchor(g, f):
    """place the fault right at a protocol event (the n-th message of a kind being sent) instead of at a time"""
    f.pop("rel", None)
    f["on"] = {"msg": g.pick(ANCHORS), "nth": g.pick([0, 0, 1, 2, 3, 5])}
    f["at"] = g.pick([0.0, 0.0, 1e-4, 1e-3, 5e-3, 0.02])


def gen_fault(g, cfg):
    kinds = ["request-abort", "abort-after-complete", "soft-fail-abort", "conn-fatal", "params-raise", "runner-raise", "store-raise", "rc-store-raise", "prep-fail", "prep-processor-raise", "worker-kill", "interrupt"]
    kind = g.pick(kinds)
    tasks = [t for _, _, t in leaf_tasks(cfg["schedule"]) if t["op"] in ("sim-op", "raw-request") and "sim" in t]
    f = {"kind": kind}
    if kind == "abort-after-complete":
        # a request of a task that is being cut by completed-by fails (on-error=abort) after its worker has handled CompleteCurrentTask
        victims = [t["name"] for el in cfg["schedule"] if "parallel" in el and el["parallel"].get("completed-by") for t in el["parallel"]["tasks"] if t["op"] in ("sim-op", "raw-request") and "sim" in t and t["name"] != el["parallel"]["completed-by"]]
        if victims:
            cfg["on_error"] = "abort"
            cfg["fault"] = {"kind": kind, "tasks": sorted(victims), "status": g.pick([400, 500])}
            return
        kind = f["kind"] = "request-abort"
    if kind in ("request-abort", "soft-fail-abort", "conn-fatal", "params-raise", "runner-raise"):
        if kind in ("runner-raise", "soft-fail-abort"):
            tasks = [t for t in tasks if t["op"] == "sim-op"]
        if not tasks:
            f = {"kind": "interrupt", "at": g.pick([0.5, 2.0, 5.0])}
        else:
            t = g.pick(tasks)
            f["task"] = t["name"]
            f["seq"] = g.pick([0, 0, 1, 2, 4])
            if kind == "request-abort":
                cfg["on_error"] = "abort"
                f["status"] = g.pick([400, 404, 500])
            if kind == "conn-fatal" and g.coin(0.4):
                # an overloaded node that dies: the first attempts run into the client's time-out (which the transport is told to retry),
                # the following ones are refused
                f["timeouts_first"] = g.pick([1, 1, 2])
                cfg["client_retry_on_timeout"] = True
            if kind == "soft-fail-abort":
                # the runner does not raise: it reports the failure in its return value (like a bulk response with errors)
                cfg["on_error"] = "abort"
            if kind == "runner-raise":
                f["how"] = g.pick(["runtime", "key"])
    elif kind == "store-raise":
        f["at_add"] = g.pick([0, 1, 5, 20, 60])
    elif kind == "rc-store-raise":
        f["at_call"] = g.pick([0, 0, 1, 2, 3, 5])  # n-th batch of samples that race control adds to its store
    elif kind == "prep-processor-raise":
        # the processor itself raises, or it hands out a preparation step (run by the task executor's pool) that raises
        f["how"] = g.pick(["processor", "task", "task"])
    elif kind == "prep-fail":
        bulks = [t for _, _, t in leaf_tasks(cfg["schedule"]) if t["op"] == "bulk"]
        if not bulks:
            # make sure there is a corpus to prepare
            cfg["schedule"].append({"task": {"name": "tbulk", "op": "bulk", "clients": 1, "docs": 7, "bulk_size": 3, "tags": []}})
        f["task"] = [t for _, _, t in leaf_tasks(cfg["schedule"]) if t["op"] == "bulk"][0]["name"]
    elif kind == "worker-kill":
        f["at"] = g.pick([0.0, 0.5, 1.1, 1.5, 2.5, 4.0, 8.0])  # seconds after load generation starts
        f["which"] = g.choose(8)
        if g.coin(0.35):
            gen_anchor(g, f)
    else:
        f["at"] = g.pick([0.1, 0.5, 2.0, 5.0, 12.0])
        if g.coin(0.6):
            f["rel"] = "start"
        if g.coin(0.4):
            gen_anchor(g, f)
    cfg["fault"] = f


# ---------------------------------------------------------------------------------------------
# reference task filter (ten lines; independent of TaskFilterTrackProcessor)
# ---------------------------------------------------------------------------------------------
def matches(t, flt):
    if flt.startswith("type:"):
        return t.get("optype", t["op"]) == flt[5:]
    if flt.startswith("tag:"):
        tags = t.get("tags") or []
        return flt[4:] in ([tags] if isinstance(tags, str) else tags)
    return t["name"] == flt


def reference_filter(schedule, include, exclude):
    if not include and not exclude:
        return schedule
    keep = (lambda t: any(matches(t, f) for f in include)) if include else (lambda t: not any(matches(t, f) for f in exclude))
    out = []
    for el in schedule:
        if "parallel" in el:
            tasks = [t for t in el["parallel"]["tasks"] if keep(t)]
            if tasks:
                p = dict(el["parallel"])
                p["tasks"] = tasks
                if p.get("completed-by") not in (None, "any") and not any(t["name"] == p["completed-by"] for t in tasks):
                    del p["completed-by"]  # the completing task is gone: nothing completes the element early any more
                out.append({"parallel": p})
        elif keep(el["task"]):
            out.append(el)
    return out


# ---------------------------------------------------------------------------------------------
class RaceHarness(Harness):
    gc_discipline = True  # see sim/batch.py run_case
    name = "race"
    properties = ("C01", "C07", "C09", "C11")

    def __init__(self):
        self.home = None

    def meta(self, prop):
        real = [
            "esrally.rally.dispatch_sub_command / race / with_actor_system, racecontrol.run / race / BenchmarkActor / BenchmarkCoordinator",
            "mechanic.MechanicActor (externally provisioned path)",
            "driver: DriverActor, Driver, TrackPreparationActor, TaskExecutionActor, Worker, Allocator, AsyncIoAdapter.run, AsyncExecutor, Sampler, SamplePostprocessor, ThroughputCalculator",
            "track loader incl. plugins, TaskFilterTrackProcessor, DefaultTrackPreparator on bundled corpora; runners; client stack; metrics.InMemoryMetricsStore, FileRaceStore, reporter",
            "elastic-transport, aiohttp ClientSession (virtual loop per worker process)",
        ]
        stub = [
            "Thespian (sim.actors: model of delivery/FIFO/timers/exit/poison/placement; messages are pickled)",
            "OS threads (executor = virtual loop of the worker process, pre-emption at Event/Queue/Future operations)",
            "Elasticsearch (SimES)",
            "track plugin sim-params/sim-op (registered through Rally's plugin API)",
            "cluster-level telemetry (switched off by the static-response seam; C09 adds one stand-in internal device that fails at benchmark stop while the cluster refuses connections)",
        ]
        rules = {
            "C01": "cases = generated schedule (1-6 elements, leaf/parallel, over-commit, completed-by task/any with eternal siblings, iteration/time/source bounded, "
            "throttled or not, bulk/sleep/raw/plug-in/admin operations) x host layout (1-3 hosts x 1-4 cores, own clock origins) x seeded message delays/stalls, wake-up "
            "lateness, service times and executor pre-emption; non-trivial = at least 2 workers and 2 schedule elements; distinct = distinct digests of the message + wire history",
            "C07": "cases as C01 with short post-processing intervals, over-commit and executor pre-emption biased up, a share with down-sampling or a tiny sample queue; "
            "non-trivial = at least 2 workers or 2 rows and at least 10 samples; distinct = distinct history digests",
            "C09": "cases as C01 plus exactly one terminal fault (request error under on-error=abort, connection error outlasting transport retries - also refused only after retried time-outs -, parameter source / runner "
            "raising, metrics store raising during post-processing or at race control, failing track preparation, killed worker process, user interrupt) at a seeded position or anchored on the n-th protocol message of a kind; a systematic "
            "sweep places every kind at early/middle/late positions of a fixed small race; non-trivial = the fault fired; distinct = distinct history digests",
            "C11": "cases as C01 with names/types/tags from small alphabets and 1-3 include or exclude filters biased to match all tasks of a parallel element; step 1 compares "
            "the loaded schedule with a reference filter (direct comparison, not simulation), step 2 races the filtered track; non-trivial = the filter removed something "
            "and something remained; distinct = distinct history digests",
        }
        return {
            "level": "fault_enumeration" if prop == "C09" else "exploration",
            "rule": rules[prop],
            "assumptions": [
                "Thespian delivers every message, FIFO per sender/receiver pair, with arbitrary finite delay; wake-ups are never early",
                "a hang is: step budget exhausted, nothing left to run, or only periodic wake-ups for 4 x longest timer + 120 s + 4 x largest delay drawn",
                "all simulated processes share one interpreter",
            ],
            "components_real": real,
            "components_stub": stub,
            "quick_budget_s": 45.0,
            "thorough_budget_s": 900.0,
            "det_sample_quick": 5,
        }

    def setup(self, prop, tier):
        from esrally import log

        self.home = tempfile.mkdtemp(prefix="esrally-verif-race-")
        os.environ["RALLY_HOME"] = self.home
        log.install_default_log_config()

    def teardown(self):
        if self.home:
            shutil.rmtree(self.home, ignore_errors=True)

    def process_home(self):
        """every OS process that runs simulations gets its own RALLY_HOME (config, logs config, race files)"""
        from esrally import log

        home = os.path.join(self.home, f"p{os.getpid()}")
        if not os.path.isdir(home):
            os.makedirs(home)
            os.environ["RALLY_HOME"] = home
            log.install_default_log_config()
        os.environ["RALLY_HOME"] = home
        return home

    def chunk_size(self, prop, tier):
        return 4

    def generate(self, prop, g, tier):
        return generate(prop, g, tier)

    def enumerated(self, prop, tier):
        if prop != "C09":
            return
        base = {
            "schedule": [
                {"task": {"name": "t0", "op": "sim-op", "clients": 3, "iterations": 4, "warmup-iterations": 1, "tags": [], "sim": {"task": "t0", "unit": "ops"}}},
                {"parallel": {"tasks": [{"name": "t1", "op": "raw-request", "clients": 2, "iterations": 5, "tags": [], "sim": {"task": "t1", "unit": "ops"}}, {"name": "t2", "op": "sim-op", "clients": 1, "iterations": 3, "tags": [], "sim": {"task": "t2", "unit": "ops"}}]}},
                {"task": {"name": "t3", "op": "bulk", "clients": 2, "docs": 12, "bulk_size": 3, "tags": []}},
            ],
            "service": {"kind": "uniform", "lo": 0.05, "hi": 0.4},
            "rand": 7,
            "hosts": ["localhost", "127.0.1.1"],
            "cores": 2,
            "host_clocks": [{}, {"perf_origin": 500.0}],
            "on_error": "continue",
            "knobs": {"worker_wakeup": 1, "post_process": 2, "stall_p": 0.02, "p_preempt": 0.2},
        }
        for task, seqs in (("t0", (0, 2, 4)), ("t1", (0, 2, 4)), ("t2", (0, 1, 2))):
            for seq in seqs:
                for kind in ("request-abort", "conn-fatal", "params-raise", "runner-raise"):
                    if kind == "runner-raise" and task == "t1":
                        continue
                    c = json.loads(json.dumps(base))
                    c["fault"] = {"kind": kind, "task": task, "seq": seq}
                    if kind == "request-abort":
                        c["on_error"] = "abort"
                        c["fault"]["status"] = 500
                    if kind == "runner-raise":
                        c["fault"]["how"] = "runtime"
                    yield c
                    if kind == "conn-fatal":
                        # the first attempt times out (the transport retries time-outs), the retries are refused; at the very last
                        # request of a task nothing else runs into the dead node afterwards
                        c = json.loads(json.dumps(c))
                        c["fault"]["timeouts_first"] = 1
                        c["client_retry_on_timeout"] = True
                        yield c
                    if kind == "runner-raise":
                        c = json.loads(json.dumps(c))
                        c["fault"] = {"kind": "soft-fail-abort", "task": c["fault"]["task"], "seq": c["fault"]["seq"]}
                        c["on_error"] = "abort"
                        yield c
        for at in (0, 3, 12, 40, 90):
            c = json.loads(json.dumps(base))
            c["fault"] = {"kind": "store-raise", "at_add": at}
            yield c
        c = json.loads(json.dumps(base))
        c["fault"] = {"kind": "prep-fail", "task": "t3"}
        yield c
        for rep in range(3):
            c = json.loads(json.dumps(base))
            c["fault"] = {"kind": "prep-processor-raise", "rep": rep}
            yield c
        for rep in range(6):
            c = json.loads(json.dumps(base))
            c["fault"] = {"kind": "prep-processor-raise", "rep": rep, "how": "task"}
            yield c
        # a failure at race control followed at once by the end of the race: the last step is one short request, messages stall
        short = json.loads(json.dumps(base))
        short["schedule"] = [
            {"task": {"name": "t0", "op": "sim-op", "clients": 2, "iterations": 3, "tags": [], "sim": {"task": "t0", "unit": "ops"}}},
            {"task": {"name": "t1", "op": "sim-op", "clients": 1, "iterations": 1, "tags": [], "sim": {"task": "t1", "unit": "ops"}}},
        ]
        short["knobs"] = dict(short["knobs"], stall_p=0.5, worker_wakeup=0.5, driver_wakeup=0.3)
        short["hosts"], short["host_clocks"], short["cores"] = ["localhost"], [{}], 1
        for rep in range(40):
            c = json.loads(json.dumps(short))
            c["fault"] = {"kind": "rc-store-raise", "at_call": 1, "rep": rep}
            yield c
        for at in (0.0, 1.05, 1.5, 3.0, 5.0, 8.0):
            for which in (0, 1, 2):
                c = json.loads(json.dumps(base))
                c["fault"] = {"kind": "worker-kill", "at": at, "which": which}
                yield c
        for at in (0.05, 0.5, 1.5, 3.0, 6.0, 9.0):
            for rel in (None, "start"):
                c = json.loads(json.dumps(base))
                c["fault"] = {"kind": "interrupt", "at": at}
                if rel:
                    c["fault"]["rel"] = rel
                yield c
        # faults anchored on protocol events: the user interrupts / a worker dies right when a message of a kind is sent
        for msg, nths in (("BenchmarkComplete", (0,)), ("TaskFinished", (0, 1, 2)), ("JoinPointReached", (0, 2, 5)), ("Drive", (0, 3)), ("CompleteCurrentTask", (0,)), ("StartWorker", (0, 1))):
            for nth in nths:
                for delta in (0.0, 1e-3, 0.02):
                    c = json.loads(json.dumps(base))
                    c["fault"] = {"kind": "interrupt", "at": delta, "on": {"msg": msg, "nth": nth}}
                    yield c
                    if msg != "BenchmarkComplete":
                        c = json.loads(json.dumps(base))
                        c["fault"] = {"kind": "worker-kill", "at": delta, "which": nth, "on": {"msg": msg, "nth": nth}}
                        yield c
        for at in (0, 1, 2, 3, 4):
            c = json.loads(json.dumps(base))
            c["fault"] = {"kind": "rc-store-raise", "at_call": at}
            yield c
        # a request of a task that is being cut by completed-by fails after its worker has handled CompleteCurrentTask
        cb = json.loads(json.dumps(base))
        cb["schedule"] = [
            {"task": {"name": "t0", "op": "sim-op", "clients": 2, "iterations": 2, "tags": [], "sim": {"task": "t0", "unit": "ops"}}},
            {"parallel": {"completed-by": "t1", "tasks": [
                {"name": "t1", "op": "sim-op", "clients": 2, "iterations": 5, "tags": [], "sim": {"task": "t1", "unit": "ops"}},
                {"name": "t2", "op": "raw-request", "clients": 3, "time-period": 300, "warmup-time-period": 0, "target-interval": 0.05, "tags": [], "sim": {"task": "t2", "unit": "ops"}},
                {"name": "t4", "op": "sim-op", "clients": 1, "iterations": 100000, "target-interval": 0.2, "tags": [], "sim": {"task": "t4", "unit": "ops"}}]}},
            {"task": {"name": "t3", "op": "sim-op", "clients": 2, "iterations": 2, "tags": [], "sim": {"task": "t3", "unit": "ops"}}},
        ]
        cb["on_error"] = "abort"
        for rep in range(6):
            for status in (400, 500):
                c = json.loads(json.dumps(cb))
                c["fault"] = {"kind": "abort-after-complete", "tasks": ["t2", "t4"], "status": status, "rep": rep}
                yield c
        # the narrowest window: the cancellation is handled by race control, the completion message is already on its way and arrives
        # before the exit request.  Whether a placement hits it depends on three message delays: many placements, several seeds each
        for rep in range(4):
            for delta in (0.0, 1e-4, 3e-4, 1e-3, 2e-3, 5e-3):
                c = json.loads(json.dumps(base))
                c["fault"] = {"kind": "interrupt", "at": delta, "on": {"msg": "BenchmarkComplete", "nth": 0}, "rep": rep}
                yield c

    def simplify(self, prop, cfg):
        def cp():
            return json.loads(json.dumps(cfg))

        sched = cfg["schedule"]
        if len(sched) > 1:
            for i in range(len(sched)):
                c = cp()
                del c["schedule"][i]
                if self._fault_ok(c):
                    yield c
        for i, el in enumerate(sched):
            if "parallel" in el:
                p = el["parallel"]
                if len(p["tasks"]) > 1:
                    for j in range(len(p["tasks"])):
                        if p["tasks"][j]["name"] == p.get("completed-by"):
                            continue
                        c = cp()
                        del c["schedule"][i]["parallel"]["tasks"][j]
                        if self._fault_ok(c):
                            yield c
                if "clients" in p:
                    c = cp()
                    del c["schedule"][i]["parallel"]["clients"]
                    yield c
                if len(p["tasks"]) == 1 and "completed-by" not in p:
                    c = cp()
                    c["schedule"][i] = {"task": p["tasks"][0]}
                    yield c
            for t, path in self._tasks_with_path(el):
                if t["clients"] > 1:
                    c = cp()
                    self._get(c["schedule"][i], path)["clients"] = t["clients"] - 1
                    yield c
                for k in ("iterations", "warmup-iterations"):
                    if isinstance(t.get(k), int) and t[k] > (1 if k == "iterations" else 0) and t[k] < 1000:
                        c = cp()
                        self._get(c["schedule"][i], path)[k] = t[k] - 1
                        if self._fault_ok(c):
                            yield c
                if t.get("target-interval"):
                    c = cp()
                    del self._get(c["schedule"][i], path)["target-interval"]
                    yield c
        if len(cfg["hosts"]) > 1:
            c = cp()
            c["hosts"] = c["hosts"][:-1]
            c["host_clocks"] = c["host_clocks"][:-1]
            yield c
        if cfg["cores"] > 1:
            c = cp()
            c["cores"] -= 1
            yield c
        for k, quiet in (("stall_p", 0), ("p_preempt", 0), ("tie_window", 0), ("jitter", 0), ("worker_wakeup", 5), ("driver_wakeup", 1), ("post_process", 30)):
            if cfg["knobs"].get(k, quiet) != quiet:
                c = cp()
                c["knobs"][k] = quiet
                yield c
        if cfg["service"]["kind"] != "const":
            c = cp()
            c["service"] = {"kind": "const", "v": 0.05}
            yield c
        for k in ("include", "exclude"):
            if len(cfg.get(k) or []) > 1:
                for j in range(len(cfg[k])):
                    c = cp()
                    del c[k][j]
                    yield c

    @staticmethod
    def _tasks_with_path(el):
        if "parallel" in el:
            for j, t in enumerate(el["parallel"]["tasks"]):
                yield t, ("parallel", j)
        else:
            yield el["task"], ("task",)

    @staticmethod
    def _get(el, path):
        return el["task"] if path[0] == "task" else el["parallel"]["tasks"][path[1]]

    @staticmethod
    def _fault_ok(c):
        f = c.get("fault")
        if not f or "task" not in f:
            return True
        return any(t["name"] == f["task"] for _, _, t in leaf_tasks(c["schedule"]))

    # ------------------------------------------------------------------------------------
    def execute(self, prop, cfg, ch, tier):
        from esrally import metrics
        from esrally.driver import driver as drv

        violations = []

        def bad(oracle, key, msg):
            if len(violations) < 12:
                violations.append({"oracle": oracle, "key": f"{oracle}:{key}", "message": msg})

        svc = cfg["service"]
        fault = cfg.get("fault")
        fired = {}
        state = {"adds": 0, "store_raised": False, "kill_done": None, "kill_relevant": None}
        # apply plan-level faults to the generated schedule (what the track plugin will do)
        run_cfg = json.loads(json.dumps(cfg))
        if fault and fault["kind"] in ("params-raise", "runner-raise", "soft-fail-abort"):
            for _, _, t in leaf_tasks(run_cfg["schedule"]):
                if t["name"] == fault["task"]:
                    if fault["kind"] == "params-raise":
                        t["sim"]["params_raise_at"] = fault["seq"]
                    elif fault["kind"] == "soft-fail-abort":
                        t["sim"]["soft_fail"] = {str(fault["seq"]): 1}
                    else:
                        t["sim"]["runner_raise"] = {str(fault["seq"]): fault.get("how", "runtime")}

        req_errors = cfg.get("req_errors") or {}
        tasks_by_name = {t["name"]: t for _, _, t in leaf_tasks(run_cfg["schedule"])}

        cluster_down = [False]

        def policy_factory(clock, ch_):
            s = ch_.stream("service-time")
            attempts = {}

            def policy(w):
                if svc["kind"] == "const":
                    d = svc["v"]
                elif svc["kind"] == "uniform":
                    d = s.uniform(svc["lo"], svc["hi"])
                else:
                    d = svc["base"] * (svc["factor"] if s.coin(svc["p"]) else 1)
                if req_errors:
                    parts = w.path.strip("/").split("/")
                    re_ = req_errors.get(parts[1]) if parts[0] == "_sim" and len(parts) >= 4 else None
                    if re_ and int(parts[3]) in re_["seqs"]:
                        t_ = tasks_by_name[parts[1]]
                        nws = (t_["sim"].get("nwire") or [1]) if t_["op"] == "sim-op" else [1]
                        # (the last wire request of the logical request fails, so that the number of wire requests stays as planned)
                        if t_["op"] == "raw-request" or int(parts[4]) == nws[int(parts[3]) % len(nws)] - 1:
                            fired["request_error_continue"] = fired.get("request_error_continue", 0) + 1
                            return Outcome(delay=d, kind="status", status=re_["status"])
                if fault and fault["kind"] in ("request-abort", "conn-fatal"):
                    parts = w.path.strip("/").split("/")
                    if parts[0] == "_sim" and parts[1] == fault["task"] and int(parts[3]) == fault["seq"]:
                        if fault["kind"] == "request-abort":
                            fired["request_error_abort"] = fired.get("request_error_abort", 0) + 1
                            return Outcome(delay=d, kind="status", status=fault.get("status", 500))
                        n_att = attempts.get(w.path, 0)
                        attempts[w.path] = n_att + 1
                        if n_att < fault.get("timeouts_first", 0):
                            fired["timeout_before_connection_error"] = fired.get("timeout_before_connection_error", 0) + 1
                            return Outcome(delay=d, kind="timeout")
                        fired["connection_error_fatal"] = fired.get("connection_error_fatal", 0) + 1
                        cluster_down[0] = True
                        return Outcome(delay=d, kind="conn-error")
                cluster_down[0] = False  # (whatever refused the connection answers again)
                return Outcome(delay=d)

            return policy

        from sim.loadsim import SimParamSource, SimRunner

        SimParamSource.raised = []
        SimRunner.raised = []
        SimRunner.soft_failed = []
        from sim import loadsim as _loadsim

        del _loadsim.PROCESSOR_RAISED[:]
        sim = RaceSim(ch, run_cfg, self.process_home())
        rc_docs = []
        rc_events = []  # (vtime, msg class) delivered to race control
        worker_cells = {}
        worker_clients = {}
        pending_cct = []
        reach = {"cct_before_late_start": 0, "cct_while_waiting_at_join_point": 0}
        cct = []  # CompleteCurrentTask handled: (vtime, worker cell aid)
        jpr = []  # JoinPointReached sent by worker
        driver_sent_cct = []
        drives, jpr_sent, cct_position, extra_on_send = {}, {}, {}, []

        def observe(system, cell, msg, sender):
            cname = cell.cls.__name__
            mname = type(msg).__name__
            if cname == "BenchmarkActor":
                rc_events.append((system.clock.now, mname))
                if mname in ("TaskFinished", "BenchmarkComplete") and msg.metrics:
                    rc_docs.extend(pickle.loads(zlib.decompress(msg.metrics)))
            elif cname == "Worker":
                worker_cells[cell.aid] = cell
                if mname == "Drive":
                    drives[cell.aid] = drives.get(cell.aid, 0) + 1
                if mname == "CompleteCurrentTask":
                    # judged from the instant the handler has *returned* (the actor thread may be descheduled inside it)
                    pending_cct.append(cell.aid)
                    # where this worker is, from the messages alone: it has reported the join point that closes the element it was
                    # told to drive (and waits for the next Drive) iff it has sent one JoinPointReached more than it received Drives
                    cct_position[cell.aid] = (jpr_sent.get(cell.aid, 0), drives.get(cell.aid, 0))
                    try:
                        if cell.inst.client_allocations is not None and cell.inst.at_joinpoint():
                            reach["cct_before_late_start" if cell.inst.start_driving else "cct_while_waiting_at_join_point"] += 1
                    except Exception:
                        pass
                if mname == "StartWorker":
                    worker_clients[cell.aid] = [a["client_id"] for a in msg.client_allocations.allocations]
                if mname == "StartWorker" and "armed" in state and not state.get("armed_done"):
                    # faults placed relative to the start of load generation
                    state["armed_done"] = True
                    state["armed"](system.clock.now)
            elif cname == "DriverActor" and mname == "JoinPointReached":
                jpr.append((system.clock.now, msg.worker_id))
            elif cname == "DriverActor" and mname == "PrepareBenchmark":
                ch_ = msg.track.find_challenge_or_default(None)
                loaded = []
                for el in ch_.schedule:
                    if hasattr(el, "tasks"):
                        loaded.append(("parallel-clients", el.clients))
                        loaded.append(("parallel", [(t.name, t.operation.type, t.clients, t.iterations, t.warmup_iterations, t.time_period, sorted([t.tags] if isinstance(t.tags, str) else t.tags), t.completes_parent, t.any_completes_parent) for t in el.tasks]))
                    else:
                        loaded.append(("task", (el.name, el.operation.type, el.clients, el.iterations, el.warmup_iterations, el.time_period, sorted([el.tags] if isinstance(el.tags, str) else el.tags), el.completes_parent, el.any_completes_parent)))
                system.loaded_schedule = loaded

        def handled(cell, msg):
            if type(msg).__name__ == "CompleteCurrentTask" and cell.aid in pending_cct:
                pending_cct.remove(cell.aid)
                sent, driven = cct_position.get(cell.aid, (0, 0))
                if sent == driven + 1 or driven == 0:
                    return  # the worker had already finished that element and waits at the next join point: nothing left to cut
                # the message concerns the element of the last Drive (FIFO driver -> worker: it cannot overtake the next Drive)
                cct.append((sim_clock[0].now, cell.aid, driven - 1))

        sim_clock = []

        def on_send_observe(src, dst, msg):
            if src is not None and src.cls is not None and src.cls.__name__ == "Worker" and type(msg).__name__ == "JoinPointReached":
                jpr_sent[src.aid] = jpr_sent.get(src.aid, 0) + 1
            for fn in extra_on_send:
                fn(src, dst, msg)

        def prepare(system, simes, out, rcfg):
            system.on_handled = handled
            system.on_send = on_send_observe
            sim_clock.append(system.clock)
            if fault and fault["kind"] == "abort-after-complete":

                def late(w):
                    parts = w.path.strip("/").split("/")
                    if state.get("late_fired") or parts[0] != "_sim" or parts[1] not in fault["tasks"]:
                        return None
                    for T, waid, _ei in cct:
                        cell = worker_cells.get(waid)
                        if cell is not None and cell.proc is not None and cell.proc.name == w.proc:
                            # the response arrives after the worker has handled CompleteCurrentTask (the request was in flight then, or
                            # it is the one further request whose throttle sleep was already running)
                            state["late_fired"] = True
                            fired["request_error_abort_after_complete"] = 1
                            return fault["status"]
                    return None

                simes.late_policy = late
            if not fault:
                return
            k = fault["kind"]
            if "on" in fault:
                seen_msgs = {"n": 0}

                def on_send(src, dst, msg):
                    if type(msg).__name__ != fault["on"]["msg"] or state.get("anchored"):
                        return
                    n = seen_msgs["n"]
                    seen_msgs["n"] += 1
                    if n == fault["on"]["nth"]:
                        state["anchored"] = True
                        state["anchor_fire"](system.clock.now)

                extra_on_send.append(on_send)
            if k == "interrupt":
                if "on" in fault:
                    state["anchor_fire"] = lambda now: setattr(system, "interrupt_at", now + fault["at"])
                elif fault.get("rel") == "start":
                    state["armed"] = lambda now: setattr(system, "interrupt_at", now + fault["at"])
                else:
                    system.interrupt_at = fault["at"]
            elif k == "worker-kill":

                def kill():
                    workers = [c for c in system.cells.values() if c.cls is not None and c.cls.__name__ == "Worker" and not c.dead and c.inst is not None]
                    if not workers:
                        return
                    c = workers[fault["which"] % len(workers)]
                    # relevant only if this worker still owes a JoinPointReached
                    inst = c.inst
                    owes = inst.client_allocations is not None
                    state["kill_done"] = system.clock.now
                    state["kill_worker"] = c.name
                    system.kill(c)

                if "on" in fault:
                    state["anchor_fire"] = lambda now: system.call_at(now + fault["at"], kill)
                else:
                    state["armed"] = lambda now: system.call_at(now + fault["at"], kill)
            elif k == "rc-store-raise":
                orig_bulk_add = metrics.MetricsStore.bulk_add
                state["orig_bulk_add"] = orig_bulk_add

                def bulk_add(self_, docs):
                    cur = system.current
                    if cur is not None and cur.cls.__name__ == "BenchmarkActor":
                        n = state["adds"]
                        state["adds"] += 1
                        if n == fault["at_call"]:
                            fired["race_control_store_failure"] = 1
                            raise RuntimeError("simulated metrics store failure at race control")
                    return orig_bulk_add(self_, docs)

                metrics.MetricsStore.bulk_add = bulk_add
            elif k == "prep-processor-raise":
                # the plug-in registers a track processor whose on_prepare_track raises (on every load driver host)
                with open(os.path.join(out.track_dir, "processor-raises"), "w") as f:
                    f.write(fault.get("how", "processor"))
            elif k == "prep-fail":
                p = os.path.join(out.track_dir, f"docs-{fault['task']}.json")
                if os.path.exists(p):
                    os.remove(p)
                    fired["track_preparation_failure"] = 1
            elif k == "store-raise":
                orig_add = metrics.InMemoryMetricsStore._add
                state["orig_add"] = orig_add

                def _add(self_, doc):
                    cur = system.current
                    if cur is not None and cur.cls.__name__ == "DriverActor" and doc.get("name") in ("latency", "service_time", "processing_time", "throughput"):
                        n = state["adds"]
                        state["adds"] += 1
                        if n == fault["at_add"]:
                            state["store_raised"] = True
                            fired["metrics_store_failure"] = 1
                            raise RuntimeError("simulated metrics store failure")
                    return orig_add(self_, doc)

                metrics.InMemoryMetricsStore._add = _add

        # Cluster-level telemetry is switched off under the static-response seam.  Its internal devices talk to the cluster when the
        # benchmark stops and some of them (IngestPipelineStats) raise a Rally error when it does not answer: a stand-in device does
        # the same once a fatal connection error has been injected
        from esrally import exceptions as _exc
        from esrally import telemetry as _telemetry
        from esrally.driver import driver as _driver

        class ClusterDevice(_telemetry.InternalTelemetryDevice):
            def on_benchmark_stop(self_):
                if cluster_down[0]:
                    fired["telemetry_stop_with_cluster_down"] = fired.get("telemetry_stop_with_cluster_down", 0) + 1
                    raise _exc.RallyError("simulated telemetry device: the cluster does not answer")

        orig_prepare_telemetry = _driver.Driver.prepare_telemetry

        def prepare_telemetry(self_, *a, **kw):
            orig_prepare_telemetry(self_, *a, **kw)
            self_.telemetry.devices.append(ClusterDevice())

        if prop == "C09":
            _driver.Driver.prepare_telemetry = prepare_telemetry
        try:
            try:
                out = sim.run(policy_factory, prepare=prepare, observe=observe)
            finally:
                _driver.Driver.prepare_telemetry = orig_prepare_telemetry
                if "orig_add" in state:
                    metrics.InMemoryMetricsStore._add = state["orig_add"]
                if "orig_bulk_add" in state:
                    metrics.MetricsStore.bulk_add = state["orig_bulk_add"]
            system, simes = out.system, out.simes
            for kname, v in system.faults.items():
                fired[kname] = fired.get(kname, 0) + v
            if SimParamSource.raised:
                fired["parameter_source_raises"] = len(SimParamSource.raised)
            if SimRunner.raised:
                fired["runner_raises"] = len(SimRunner.raised)
            if _loadsim.PROCESSOR_RAISED:
                fired["track_processor_raises"] = len(_loadsim.PROCESSOR_RAISED)
            if SimRunner.soft_failed and cfg.get("on_error") == "abort":
                fired["runner_reports_failure_abort"] = len(SimRunner.soft_failed)

            if out.hang and out.hang.startswith("step budget") and getattr(system, "budget_inconclusive", False):
                # the simulation ran out of steps while virtual time was still advancing (a busy race, not a hang): nothing is judged
                return RunResult(digest=race_digest(out), nontrivial=False, violations=[], stats={"steps": system.steps, "sim_s": system.clock.now, "faults": {}, "probes": {"inconclusive_step_budget": 1}}, sample=None)
            include, exclude = cfg.get("include"), cfg.get("exclude")
            expected_schedule = reference_filter(cfg["schedule"], include, exclude)
            info = analyse(run_cfg, expected_schedule, out, rc_events, rc_docs)

            if prop == "C09":
                self.oracle_c09(cfg, fault, fired, state, out, rc_events, info, bad)
            else:
                if prop == "C11":
                    self.oracle_c11_loader(cfg, expected_schedule, out, bad)
                if not expected_schedule:
                    # nothing left to run: Rally refuses such a track; any explicit error is fine, a hang is not
                    if out.hang:
                        bad("liveness", "hang-empty-schedule", f"race with an empty filtered schedule hangs: {out.hang}")
                else:
                    self.oracle_c01(cfg, expected_schedule, out, rc_events, info, cct, bad, strict_counts=(prop in ("C01", "C11")), worker_clients=worker_clients)
                    if prop == "C07":
                        self.oracle_c07(cfg, expected_schedule, out, rc_docs, info, bad)
                        if cfg["knobs"].get("downsample", 1) > 1 and not out.hang and out.exception is None and not violations:
                            # metamorphic: down-sampling must not change throughput (it is computed from all samples).  The very same
                            # race (same choices, replayed) without down-sampling must store the same throughput records.
                            from sim.chooser import Chooser

                            twin_cfg = json.loads(json.dumps(run_cfg))
                            twin_cfg["knobs"].pop("downsample")
                            twin_docs = []

                            def observe_twin(system, cell, msg, sender):
                                if cell.cls.__name__ == "BenchmarkActor" and type(msg).__name__ in ("TaskFinished", "BenchmarkComplete") and msg.metrics:
                                    twin_docs.extend(pickle.loads(zlib.decompress(msg.metrics)))

                            recorded = ch.dump()
                            recorded.pop("gen", None)
                            twin = RaceSim(Chooser(seed=0, replay=recorded), twin_cfg, self.process_home())
                            try:
                                twin_out = twin.run(policy_factory, observe=observe_twin)
                            finally:
                                twin.cleanup()
                            key = lambda d: (d.get("task"), d["sample-type"], round(d["value"], 9), d["unit"], d["@timestamp"])  # noqa
                            a = sorted(key(d) for d in rc_docs if d["name"] == "throughput")
                            b = sorted(key(d) for d in twin_docs if d["name"] == "throughput")
                            if race_digest(twin_out) != race_digest(out):
                                reach["downsampling_twin_history_differs"] = 1  # would be a harness matter; nothing to compare
                            elif a != b:
                                diff = [x for x in a if x not in b][:2], [x for x in b if x not in a][:2]
                                bad("records", "throughput-changed-by-downsampling", f"with downsample factor {cfg['knobs']['downsample']} the throughput records differ from the same race without down-sampling: only with {diff[0]}, only without {diff[1]}")
                            reach["downsampling_twin_compared"] = 1
                    if prop == "C11":
                        self.oracle_c11_progress(expected_schedule, out, bad)
                        if info["stray"] is not None:
                            w = info["stray"]["first_send_wire"]
                            bad("filter", "filtered-task-ran", f"include={include} exclude={exclude}: request {w.path} belongs to a task that the filters remove")

            nworkers = len(worker_cells)
            probes = dict(system.probes)
            probes.update(info["probes"])
            probes.update(reach)
            probes["workers>=2"] = int(nworkers >= 2)
            probes["unpicklable_message_dropped"] = system.dropped_unpicklable
            if prop == "C01":
                nontrivial = nworkers >= 2 and len(expected_schedule) >= 2
            elif prop == "C07":
                nontrivial = (nworkers >= 2 or info["probes"].get("over_commit_rows", 0) > 0) and info["logical_requests"] >= 10
            elif prop == "C09":
                nontrivial = bool(fired)
            else:
                total = sum(1 for _ in leaf_tasks(cfg["schedule"]))
                left = sum(1 for _ in leaf_tasks(expected_schedule))
                nontrivial = 0 < left < total
                probes["filter_emptied_a_parallel"] = int(any("parallel" in el and not any(t["name"] in {x["name"] for _, _, x in leaf_tasks(expected_schedule)} for t in el["parallel"]["tasks"]) for el in cfg["schedule"]))
            digest = race_digest(out)
            sample = {
                "schedule": [("parallel", [(t["name"], t["op"], t["clients"]) for t in el["parallel"]["tasks"]], el["parallel"].get("completed-by"), el["parallel"].get("clients")) if "parallel" in el else ("task", el["task"]["name"], el["task"]["op"], el["task"]["clients"]) for el in cfg["schedule"]],
                "hosts": cfg["hosts"],
                "cores": cfg["cores"],
                "knobs": cfg["knobs"],
                "fault": fault,
                "filters": {"include": include, "exclude": exclude},
                "exit_status": str(out.exit_status),
                "wire_requests": len(simes.log),
                "actor_messages": sum(1 for h in system.history if h[2] == "deliver"),
                "first_events": [list(h[1:6]) for h in system.history[:6]],
            }
            stats = {"steps": system.steps, "sim_s": out.clock.now, "faults": fired, "probes": {k: int(v) for k, v in probes.items()}}
            return RunResult(digest=digest, nontrivial=nontrivial, violations=violations, stats=stats, sample=sample)
        finally:
            sim.cleanup()

    @staticmethod
    def _task_started(system, simes, cfg, task):
        # the element containing the task was reached if any request of it or of a later element was seen, or the fault is in the first element
        order = [t["name"] for _, _, t in leaf_tasks(cfg["schedule"])]
        seen = {w.path.strip("/").split("/")[1] for w in simes.log if w.path.startswith("/_sim/")}
        idx = order.index(task)
        first_el = [t["name"] for ei, _, t in leaf_tasks(cfg["schedule"]) if ei == 0]
        return task in first_el or any(n in seen for n in order[idx:]) or any(h[2] == "executor-start" for h in system.history)

    # -- C01 ---------------------------------------------------------------------------------
    def oracle_c01(self, cfg, schedule, out, rc_events, info, cct, bad, strict_counts=True, worker_clients=None):
        from esrally.rally import ExitStatus

        system, simes = out.system, out.simes
        if out.hang:
            bad("liveness", "hang", f"the race does not finish: {out.hang}; last messages: {[h[2:6] for h in system.history[-6:]]}")
            return
        if out.exception is not None:
            bad("completion", f"raised:{type(out.exception).__name__}", f"race raised {out.exception!r}")
            return
        names = [m for _, m in rc_events]
        if out.exit_status != ExitStatus.SUCCESSFUL or "BenchmarkFailure" in names:
            bad("completion", "not-successful", f"fault-free race ended with {out.exit_status}; race control saw {names[-6:]}")
            return
        m = len(schedule)
        if names.count("BenchmarkComplete") != 1:
            bad("completion", "benchmark-complete-count", f"race control received {names.count('BenchmarkComplete')} BenchmarkComplete messages")
        if names.count("TaskFinished") != m:
            bad("completion", "task-finished-count", f"race control received {names.count('TaskFinished')} TaskFinished messages for {m} schedule elements")
        # 1. barrier
        spans = info["element_spans"]
        prev = None
        for ei in range(m):
            sp = spans.get(ei)
            if sp is None:
                continue
            if prev is not None and sp["first_send"] < prev[1]["last_recv"] - 1e-12:
                late = prev[1]["last_recv_wire"]
                early = sp["first_send_wire"]
                bad(
                    "barrier",
                    "later-element-started-early",
                    f"element {ei} issued {early.path} (client {early.client_id}) at {early.t_send:.6f} while element {prev[0]} was still running: {late.path} (client {late.client_id}) completed at {late.t_recv:.6f}",
                )
                break
            prev = (ei, sp)
        if spans and names.count("BenchmarkComplete") == 1:
            t_bc = [t for t, mname in rc_events if mname == "BenchmarkComplete"][0]
            last = max(sp["last_recv"] for sp in spans.values())
            if t_bc < last:
                bad("completion", "complete-before-last-response", f"BenchmarkComplete reached race control at {t_bc:.6f}, the last response arrived at {last:.6f}")
        # 2./3. exactly once, completed-by
        for ei, el in enumerate(schedule):
            tasks = el["parallel"]["tasks"] if "parallel" in el else [el["task"]]
            cb = el["parallel"].get("completed-by") if "parallel" in el else None
            full = {}
            # Narrow relaxation: when an element is over-committed (fewer physical clients than the tasks ask for) a physical client
            # runs several rows one after the other; once completed-by has fired, the rows that have not started are skipped, which
            # may include further clients of the completing task itself.  "The named task is done" is then judged per started row.
            over = "parallel" in el and el["parallel"].get("clients") is not None and el["parallel"]["clients"] < sum(t["clients"] for t in tasks)
            for t in tasks:
                full[t["name"]] = self.check_task(cfg, ei, t, cb if not (over and cb == t["name"]) else "rows:" + t["name"], info, bad, strict_counts)
            if over and cb not in (None, "any") and full.get(cb) not in ("full", "some-client-full"):
                bad("completed-by", "named-task-not-done", f"element {ei}: completed-by {cb} but no client of it ran to completion: {full}")
            if cb == "any":
                if not any(v == "full" or v == "some-client-full" for v in full.values()):
                    bad("completed-by", "any-none-finished", f"element {ei} (completed-by any) ended although no task ran to completion: {full}")
            # CompleteCurrentTask must not be broadcast for elements without completed-by
        # 3b. once a worker has handled CompleteCurrentTask, each of its clients issues at most one further request of the element
        #     (the one whose throttle sleep was already running; the flag is re-read after every response)
        spans = info["element_spans"]
        #     This covers every row of an over-committed element: rows that have not started when the message is handled are skipped.
        for T, waid, ei in cct:
            if not 0 <= ei < len(schedule):
                continue
            el = schedule[ei]
            if "parallel" not in el or not el["parallel"].get("completed-by"):
                continue
            cb = el["parallel"]["completed-by"]
            names = {t["name"] for t in el["parallel"]["tasks"]}
            mine = set((worker_clients or {}).get(waid, []))
            later = {}
            for (task, client, key), t_first in info["first_send_of_request"].items():
                if client in mine and task in names and task != cb and t_first > T:
                    later.setdefault(client, []).append((t_first, task))
            for client, ts in later.items():
                if len(ts) > 1:
                    ts.sort()
                    bad("completed-by", "kept-running-after-complete", f"element {ei}: client {client} issued {len(ts)} further requests ({sorted({x[1] for x in ts})}) after its worker had handled CompleteCurrentTask at {T:.6f} (at {[round(x[0], 6) for x in ts[:3]]})")
                    break
        # 3a. CompleteCurrentTask only while an element with completed-by is running
        probes_cct_delivered = info["probes"].get("complete_current_task_delivered", 0)
        if probes_cct_delivered and not any("parallel" in el and el["parallel"].get("completed-by") for el in schedule):
            bad("completed-by", "spurious-broadcast", f"CompleteCurrentTask was delivered {probes_cct_delivered} times although no element uses completed-by")

    def check_task(self, cfg, ei, t, cb, info, bad, strict):
        """returns 'full' | 'some-client-full' | 'cut' | 'skipped'"""
        name = t["name"]
        per_idx = info["sim_requests"].get(name)
        must_finish = cb is None or cb == name
        ctx = f"element {ei} task {name}"
        if t["op"] in ("sim-op", "raw-request"):
            per_idx = per_idx or {}
            plan = t.get("sim", {})
            if "iterations" in t or "warmup-iterations" in t:
                want = t.get("iterations", 1) + t.get("warmup-iterations", 0) if "iterations" in t else None
                if want is None and plan.get("size") is None:
                    want = 1 + t.get("warmup-iterations", 0)
            elif "time-period" in t:
                want = None
            else:
                want = plan.get("size", 1)
            if len(per_idx) > t["clients"]:
                bad("exactly-once", "too-many-clients", f"{ctx}: {len(per_idx)} client partitions issued requests, the task has {t['clients']} clients")
                return "cut"
            for idx, seqs in per_idx.items():
                ss = sorted(seqs)
                if ss != list(range(len(ss))):
                    bad("exactly-once", "gap", f"{ctx} client index {idx}: request sequence {ss[:12]} has gaps")
                    return "cut"
                dup = [s for s, n in seqs.items() if n != info["nwire"](t, s)]
                if dup:
                    bad("exactly-once", "repeated-request", f"{ctx} client index {idx}: request {dup[0]} arrived {seqs[dup[0]]} times at the cluster (expected {info['nwire'](t, dup[0])})")
                    return "cut"
                if want is not None and len(ss) > want:
                    bad("exactly-once", "too-many-requests", f"{ctx} client index {idx}: {len(ss)} requests, the task asks for {want}")
                    return "cut"
            if must_finish:
                if len(per_idx) != t["clients"]:
                    bad("exactly-once", "client-missing", f"{ctx}: only client partitions {sorted(per_idx)} issued requests, the task has {t['clients']} clients")
                    return "cut"
                if want is not None:
                    short = {i: len(s) for i, s in per_idx.items() if len(s) != want}
                    if short:
                        bad("exactly-once", "cut-short", f"{ctx}: requests per client partition {short}, the task asks for {want} (no completed-by applies to it)")
                        return "cut"
                elif any(len(s) < 1 for s in per_idx.values()):
                    bad("exactly-once", "cut-short", f"{ctx}: a time-based client issued no request")
                    return "cut"
                return "full"
            if want is not None and per_idx and any(len(s) == want for s in per_idx.values()):
                return "full" if len(per_idx) == t["clients"] and all(len(s) == want for s in per_idx.values()) else "some-client-full"
            if want is None and per_idx:
                return "some-client-full"
            return "cut" if per_idx else "skipped"
        if t["op"] == "bulk":
            docs = info["bulk_docs"].get(name, {})
            missing = [i for i in range(t["docs"]) if docs.get(i, 0) == 0]
            dup = [i for i, n in docs.items() if n > 1]
            if dup:
                bad("exactly-once", "bulk-duplicate", f"{ctx}: documents ingested more than once: {dup[:8]}")
                return "cut"
            if must_finish and missing:
                bad("exactly-once", "bulk-cover", f"{ctx}: documents never ingested {missing[:8]} of {t['docs']}")
                return "cut"
            # which client owns which slice is C03's business; under completed-by a partly ingested corpus may well contain the
            # complete share of one client, so it counts as "possibly finished" for the 'any' rule
            return "full" if not missing else ("some-client-full" if docs else "skipped")
        if t["op"] in ("cluster-health", "refresh"):
            per_client = info["admin_by_client"].get(name, {})
            n = sum(per_client.values())
            each = t.get("iterations", 1) + t.get("warmup-iterations", 0)
            want = each * t["clients"]
            if any(v > each for v in per_client.values()) and not info["over_committed"](ei):
                bad("exactly-once", "admin-too-many", f"{ctx}: requests per client {per_client}, each client should issue {each}")
                return "cut"
            if must_finish and n != want:
                bad("exactly-once", "admin-count", f"{ctx}: {n} requests at the cluster, {want} expected")
                return "cut"
            if n == want:
                return "full"
            return "some-client-full" if any(v >= each for v in per_client.values()) else ("cut" if n else "skipped")
        if t["op"] == "composite":
            per_client = info["composite"].get(name, {})
            each = t.get("iterations", 1) + t.get("warmup-iterations", 0)
            wire_leaves = [l["name"] for l in composite_leaves(t["requests"]).values() if l["operation-type"] == "raw-request"]
            if not wire_leaves:
                return "full"
            for client, per_leaf in per_client.items():
                counts = {per_leaf.get(n, 0) for n in wire_leaves}
                if len(counts) != 1 and must_finish:
                    bad("exactly-once", "composite-partial", f"{ctx} client {client}: sub-requests were issued {per_leaf} times, a composite request issues each of {wire_leaves} once")
                    return "cut"
                if max(counts) > each and not info["over_committed"](ei):
                    bad("exactly-once", "composite-too-many", f"{ctx} client {client}: {max(counts)} composite requests, the task asks for {each}")
                    return "cut"
            total = sum(max((pl.get(n, 0) for n in wire_leaves), default=0) for pl in per_client.values())
            if must_finish and total != each * t["clients"]:
                bad("exactly-once", "composite-count", f"{ctx}: {total} composite requests at the cluster, {each * t['clients']} expected ({per_client})")
                return "cut"
            return "full" if total == each * t["clients"] else ("some-client-full" if any(max((pl.get(n, 0) for n in wire_leaves), default=0) >= each for pl in per_client.values()) else ("cut" if total else "skipped"))
        return "full"  # sleep: invisible at the cluster

    # -- C07 ---------------------------------------------------------------------------------
    def oracle_c07(self, cfg, schedule, out, rc_docs, info, bad):
        if out.hang or out.exception is not None:
            return
        knobs = cfg["knobs"]
        ops_of_task = {t["name"]: t.get("opname", f"op-{t['name']}") for _, _, t in leaf_tasks(schedule)}
        expected = info["expected_records"]  # Counter of (task, client_id) -> logical requests
        got = {}
        names = {}
        for d in rc_docs:
            if d["name"] in ("latency", "service_time", "processing_time"):
                key = (d.get("task"), d["meta"].get("client_id"))
                got.setdefault(key, {}).setdefault(d["name"], 0)
                got[key][d["name"]] += 1
        sleepers = {t["name"] for _, _, t in leaf_tasks(schedule) if t["op"] == "sleep" or (t["op"] == "composite" and not any(l["operation-type"] == "raw-request" for l in composite_leaves(t["requests"]).values()))}
        got = {k: v for k, v in got.items() if k[0] not in sleepers}
        # a composite request yields one service_time record for itself plus one per sub-request, each under the name and type of
        # its own sub-request
        if not (knobs.get("downsample", 1) > 1 or knobs.get("queue_size")):
            for _, _, t in leaf_tasks(schedule):
                if t["op"] != "composite":
                    continue
                leaves = composite_leaves(t["requests"])
                for (task, client), n in expected.items():
                    if task != t["name"] or not n:
                        continue
                    for lname, leaf in leaves.items():
                        have = [d for d in rc_docs if d["name"] == "service_time" and d.get("task") == task and d["meta"].get("client_id") == client and d.get("operation") == lname]
                        if len(have) != n:
                            bad("records", "dependent-timing-operation", f"task {task} client {client}: {n} composite requests were executed but {len(have)} service_time records carry the name of sub-request {lname} ({sorted({str(d.get('operation')) for d in rc_docs if d['name'] == 'service_time' and d.get('task') == task})} occur)")
                            return
                        wrong = [d.get("operation-type") for d in have if d.get("operation-type") != leaf["operation-type"]]
                        if wrong:
                            bad("records", "dependent-timing-operation-type", f"task {task} client {client}: records of sub-request {lname} ({leaf['operation-type']}) carry operation-type {sorted(set(map(str, wrong)))}")
                            return
        for key, dep in info["expected_dependent"].items():
            if key in got and "service_time" in got[key]:
                have_dep = got[key]["service_time"] - got[key].get("latency", 0)
                if have_dep != dep and not (knobs.get("downsample", 1) > 1 or knobs.get("queue_size")):
                    bad("records", "dependent-timings", f"task {key[0]} client {key[1]}: {expected.get(key, 0)} composite requests with {dep} sub-requests in total, but {have_dep} dependent service_time records at race control")
                got[key]["service_time"] = got[key].get("latency", 0)
        reduced = knobs.get("downsample", 1) > 1 or knobs.get("queue_size")
        total_exp = sum(expected.values())
        total_got = sum(v.get("service_time", 0) for v in got.values())
        if reduced:
            f = knobs.get("downsample", 1)
            if total_got > total_exp:
                bad("records", "more-than-requests", f"{total_got} service_time records for {total_exp} requests although records may only be reduced")
            return
        for key in sorted(set(expected) | set(got), key=str):
            e = expected.get(key, 0)
            g_ = got.get(key, {})
            for name in ("latency", "service_time", "processing_time"):
                n = g_.get(name, 0)
                if n < e:
                    bad("records", "lost", f"task {key[0]} client {key[1]}: {e} requests were executed but race control holds {n} {name} records (lost {e - n}); over-commit rows: {info['probes'].get('over_commit_rows', 0)}")
                    return
                if n > e:
                    bad("records", "duplicated", f"task {key[0]} client {key[1]}: {e} requests were executed but race control holds {n} {name} records")
                    return
        # every record describes its own request: failed requests are marked as such (with the status), the others are not
        if cfg.get("req_errors"):
            for key in sorted(expected, key=str):
                if key[0] not in cfg["req_errors"]:
                    continue
                fails = info["failed_requests"].get(key, {})
                for name in ("latency", "service_time", "processing_time"):
                    recs = [d for d in rc_docs if d["name"] == name and d.get("task") == key[0] and d["meta"].get("client_id") == key[1] and d.get("operation") == ops_of_task.get(key[0])]
                    n_unsuccessful = sum(1 for d in recs if d["meta"].get("success") is False)
                    n_status = sorted(d["meta"]["http-status"] for d in recs if "http-status" in d["meta"])
                    n_errtype = sum(1 for d in recs if "error-type" in d["meta"])
                    if n_unsuccessful != len(fails) or n_status != sorted(fails.values()) or n_errtype != len(fails):
                        bad("records", "meta-data", f"task {key[0]} client {key[1]}: {len(fails)} of {expected[key]} requests failed (status {sorted(set(fails.values()))}), but of the {len(recs)} {name} records {n_unsuccessful} say success=false, {len(n_status)} carry an http-status and {n_errtype} an error-type")
                        return
        # sample types of iteration-based tasks
        for (task, client, stype), n in info["expected_types"].items():
            have = sum(1 for d in rc_docs if d["name"] == "service_time" and d.get("task") == task and d["meta"].get("client_id") == client and d["sample-type"] == stype)
            if have != n:
                bad("records", "sample-type", f"task {task} client {client}: {n} {stype} requests executed, {have} {stype} service_time records stored")
                return
        # operation name / throughput
        ops = {t["name"]: t.get("opname", f"op-{t['name']}") for _, _, t in leaf_tasks(schedule)}
        subops = {t["name"]: set(composite_leaves(t["requests"])) for _, _, t in leaf_tasks(schedule) if t["op"] == "composite"}
        for d in rc_docs:
            if d["name"] == "service_time" and d.get("task") in subops and d.get("operation") in subops[d["task"]]:
                continue  # dependent timing of a composite: carries the name of the sub-request
            if d["name"] in ("latency", "service_time", "processing_time") and d.get("task") in ops and d.get("operation") != ops[d["task"]]:
                bad("records", "operation", f"record of task {d['task']} carries operation {d.get('operation')}")
                return
        tasks_with_samples = {k[0] for k, v in expected.items() if v}
        thr = {d.get("task") for d in rc_docs if d["name"] == "throughput"}
        for t in tasks_with_samples - thr:
            bad("records", "no-throughput", f"task {t} executed requests but has no throughput record")
            return

    # -- C09 ---------------------------------------------------------------------------------
    def oracle_c09(self, cfg, fault, fired, state, out, rc_events, info, bad):
        from esrally.rally import ExitStatus

        names = [m for _, m in rc_events]
        kind = fault["kind"] if fault else None
        relevant = bool(fired)
        if kind == "worker-kill":
            # only judged when the killed worker still owed its part (a later JoinPointReached was never sent by it)
            relevant = state.get("kill_done") is not None and "BenchmarkComplete" not in [m for t, m in rc_events if t <= state["kill_done"]]
            if relevant:
                # did the worker die after its last join point? then the race may legitimately succeed
                last_jp = info["last_joinpoint_sent"].get(state.get("kill_worker"))
                if info["all_joinpoints_sent_before"](state.get("kill_worker"), state["kill_done"]):
                    relevant = False
        if kind == "interrupt":
            relevant = fired.get("user_interrupt", 0) > 0
            if relevant:
                # a cancellation that comes after race control has already processed the end of the benchmark cannot un-store results
                # (race control learns about the cancellation through BenchmarkCancelled; a BenchmarkComplete that reaches it
                # before that message was processed while the benchmark was, from its point of view, not cancelled)
                order = [m for _, m in rc_events if m in ("BenchmarkComplete", "BenchmarkCancelled")]
                if "BenchmarkComplete" in order and (order.index("BenchmarkComplete") < (order.index("BenchmarkCancelled") if "BenchmarkCancelled" in order else 10**9)):
                    return
        if kind == "worker-kill" and state.get("kill_done") is not None and not relevant:
            # the worker died after its part of the race was over: either outcome is acceptable, a hang is not
            if out.hang:
                bad("liveness", "hang-after-late-worker-kill", f"race hangs after a worker died at {state['kill_done']:.3f}: {out.hang}")
            return
        if not relevant:
            # the fault never took effect: this is a fault-free race and must succeed
            if out.hang:
                bad("liveness", "hang", f"race without effective fault hangs: {out.hang}")
            elif out.exit_status != ExitStatus.SUCCESSFUL:
                bad("control", "not-successful", f"the {kind} fault never fired but the race ended with {out.exit_status} ({[m for m in names[-5:]]})")
            return
        what = f"{kind} {json.dumps({k: v for k, v in fault.items() if k != 'kind'})}"
        if out.hang:
            bad("liveness", f"hang-after-{kind}", f"after fault [{what}] the race hangs instead of failing: {out.hang}; race control saw {names[-5:]}")
            return
        if out.exit_status == ExitStatus.SUCCESSFUL:
            bad("reported-success", kind, f"fault [{what}] took effect but the race was reported as successful; race control saw {names[-6:]}")
        if out.race_json is not None and out.race_json.get("results"):
            bad("results-stored", kind, f"fault [{what}]: final results were written to race.json")
        if out.summarize_calls or out.results_stored:
            bad("results-stored", f"{kind}-summary", f"fault [{what}]: summary printed {out.summarize_calls}x, results stored {out.results_stored}x")
        if kind == "interrupt":
            if out.exit_status != ExitStatus.INTERRUPTED:
                bad("cancel", "not-interrupted", f"user interrupt ended with {out.exit_status}")
        elif "BenchmarkFailure" not in names and "PoisonMessage" not in names and "BenchmarkCancelled" not in names and out.exit_status == ExitStatus.SUCCESSFUL:
            bad("notification", kind, f"fault [{what}]: race control never received a failure notification ({names[-6:]})")

    # -- C11 ---------------------------------------------------------------------------------
    def oracle_c11_loader(self, cfg, expected, out, bad):
        loaded = getattr(out.system, "loaded_schedule", None)
        if loaded is None:
            return

        def sig(t, cb):
            return (t["name"], t.get("optype", t["op"]), t["clients"], t.get("iterations"), t.get("warmup-iterations"), t.get("time-period"), sorted([t["tags"]] if isinstance(t.get("tags"), str) else (t.get("tags") or [])), cb == t["name"], cb == "any")

        want = []
        for el in expected:
            if "parallel" in el:
                cb = el["parallel"].get("completed-by")
                want.append(("parallel-clients", el["parallel"].get("clients") or sum(t["clients"] for t in el["parallel"]["tasks"])))
                want.append(("parallel", [sig(t, cb) for t in el["parallel"]["tasks"]]))
            else:
                want.append(("task", sig(el["task"], None)))
        if loaded != want:
            names = lambda sch: [[x[0] for x in e[1]] if e[0] == "parallel" else e[1][0] for e in sch if e[0] != "parallel-clients"]  # noqa
            key = "empty-parallel-left" if any(e[0] == "parallel" and not e[1] for e in loaded) else ("tasks-differ" if names(loaded) != names(want) else "properties-differ")
            bad("filter", key, f"include={cfg.get('include')} exclude={cfg.get('exclude')}: loaded schedule {names(loaded)}, reference filter gives {names(want)}" + ("" if key != "properties-differ" else f"; loaded {loaded} expected {want}"))

    def oracle_c11_progress(self, schedule, out, bad):
        if out.hang or out.exception is not None:
            return
        # every step must have been announced with exactly its tasks
        announced = []
        for _, msg, _ in out.progress:
            if msg and msg.startswith("Running "):
                names = sorted(msg[len("Running ") :].split(","))
                if not announced or announced[-1] != names:
                    announced.append(names)
        want = [sorted(t["name"] for t in (el["parallel"]["tasks"] if "parallel" in el else [el["task"]])) for el in schedule]
        # consecutive duplicates collapse; compare as subsequence-equal lists
        dedup = []
        for w in want:
            if not dedup or dedup[-1] != w:
                dedup.append(w)
        if announced != dedup:
            bad("progress", "steps-misaligned", f"progress announced steps {announced}, the filtered schedule has {dedup}")


# ---------------------------------------------------------------------------------------------
# history analysis shared by the oracles
# ---------------------------------------------------------------------------------------------
def analyse(cfg, schedule, out, rc_events, rc_docs):
    simes, system = out.simes, out.system
    element_of = {}
    task_by_name = {}
    for ei, el, t in leaf_tasks(schedule):
        element_of[t["name"]] = ei
        task_by_name[t["name"]] = t
    spans = {}
    sim_requests = {}  # task -> idx -> {seq: wire count}
    bulk_docs = {}
    admin = {}
    composite = {}
    admin_by_client = {}
    logical = {}  # (task, client_id) -> set of logical request keys
    failed = {}  # (task, client_id) -> {logical request key: http status}
    first_send = {}
    types = {}
    unknown = 0
    for w in simes.log:
        parts = w.path.strip("/").split("/")
        task = None
        key = None
        if parts[0] == "_sim":
            task = parts[1]
            idx, seq = int(parts[2]), int(parts[3])
            sim_requests.setdefault(task, {}).setdefault(idx, {})
            sim_requests[task][idx][seq] = sim_requests[task][idx].get(seq, 0) + 1
            key = ("sim", idx, seq)
        elif parts[-1] == "_bulk":
            lines = [l for l in (w.body or b"").split(b"\n") if l]
            for i in range(0, len(lines) - 1, 2):
                try:
                    action = json.loads(lines[i])
                    doc = json.loads(lines[i + 1])
                except ValueError:
                    continue
                idxname = next(iter(action.values())).get("_index", "")
                task = idxname[4:] if idxname.startswith("idx-") else doc.get("task")
                bulk_docs.setdefault(task, {})
                bulk_docs[task][doc.get("n")] = bulk_docs[task].get(doc.get("n"), 0) + 1
            key = ("bulk", w.seq)
        elif parts[0] == "_c":
            task = parts[1]
            comp = composite.setdefault(task, {}).setdefault(w.client_id, {})
            comp[parts[2]] = comp.get(parts[2], 0) + 1
            key = ("composite", comp[parts[2]])  # the k-th occurrence of any leaf belongs to the k-th composite request of this client
        elif parts[0] == "_cluster" and len(parts) >= 3 and parts[2].startswith("idx-"):
            task = parts[2][4:]
            admin[task] = admin.get(task, 0) + 1
            admin_by_client.setdefault(task, {})
            admin_by_client[task][w.client_id] = admin_by_client[task].get(w.client_id, 0) + 1
            key = ("admin", w.seq)
        elif len(parts) == 2 and parts[1] == "_refresh" and parts[0].startswith("idx-"):
            task = parts[0][4:]
            admin[task] = admin.get(task, 0) + 1
            admin_by_client.setdefault(task, {})
            admin_by_client[task][w.client_id] = admin_by_client[task].get(w.client_id, 0) + 1
            key = ("admin", w.seq)
        else:
            unknown += 1
            continue
        if task not in element_of:
            # a request of a task that should have been filtered out (or unknown): reported through the barrier/count oracles
            spans.setdefault(-1, {"first_send": w.t_send, "last_recv": w.t_recv or w.t_send, "first_send_wire": w, "last_recv_wire": w})
            continue
        logical.setdefault((task, w.client_id), set()).add(key)
        if w.status is not None and w.status >= 400 and key[0] == "sim":
            failed.setdefault((task, w.client_id), {})[key] = w.status
        fk = (task, w.client_id, key)
        if fk not in first_send or w.t_send < first_send[fk]:
            first_send[fk] = w.t_send
        ei = element_of[task]
        sp = spans.get(ei)
        recv = w.t_recv if w.t_recv is not None else w.t_send
        if sp is None:
            spans[ei] = {"first_send": w.t_send, "last_recv": recv, "first_send_wire": w, "last_recv_wire": w}
        else:
            if w.t_send < sp["first_send"]:
                sp["first_send"], sp["first_send_wire"] = w.t_send, w
            if recv > sp["last_recv"]:
                sp["last_recv"], sp["last_recv_wire"] = recv, w
    expected_records = {k: len(v) for k, v in logical.items()}
    expected_dependent = {}
    for (task, client), keys in list(logical.items()):
        t = task_by_name[task]
        if t["op"] == "composite":
            # one logical request per occurrence of a wire leaf; every leaf (sleeps too) adds one dependent service_time record
            per_leaf = composite.get(task, {}).get(client, {})
            n = max(per_leaf.values()) if per_leaf else 0
            expected_records[(task, client)] = n
            nleaves = len(composite_leaves(t["requests"]))
            expected_dependent[(task, client)] = n * nleaves
    # sleeps produce samples without wire requests: clients x iterations, attributed per physical client is unknown -> only totals per task
    expected_types = {}
    for (task, client), keys in logical.items():
        t = task_by_name[task]
        if t["op"] in ("sim-op", "raw-request") and ("iterations" in t or "warmup-iterations" in t) and "time-period" not in t:
            w = t.get("warmup-iterations", 0)
            nw = sum(1 for k in keys if k[2] < w)
            if nw:
                expected_types[(task, client, "warmup")] = nw
            if len(keys) - nw:
                expected_types[(task, client, "normal")] = len(keys) - nw
    probes = {}
    rows = 0
    for el in schedule:
        if "parallel" in el and el["parallel"].get("clients") is not None and el["parallel"]["clients"] < sum(t["clients"] for t in el["parallel"]["tasks"]):
            rows += 1
    probes["over_commit_rows"] = rows
    probes["completed_by_task"] = sum(1 for el in schedule if "parallel" in el and el["parallel"].get("completed-by") not in (None, "any"))
    probes["completed_by_any"] = sum(1 for el in schedule if "parallel" in el and el["parallel"].get("completed-by") == "any")
    probes["complete_current_task_delivered"] = sum(1 for h in system.history if h[2] == "deliver" and h[4] == "CompleteCurrentTask")
    probes["multi_host"] = int(len(cfg["hosts"]) > 1)

    def nwire(t, seq):
        if t["op"] == "raw-request":
            return 1
        pat = (t.get("sim") or {}).get("nwire") or [1]
        return pat[seq % len(pat)]

    # join points per worker id
    jp_sent = {}
    for h in system.history:
        if h[2] == "send" and h[5] == "JoinPointReached":
            jp_sent.setdefault(h[3], []).append(h[1])
    n_joinpoints = len(schedule) + 1

    def all_joinpoints_sent_before(worker_name, t):
        """had this worker already announced its last join point (its part of the race was over) at time t?"""
        v = jp_sent.get(worker_name, [])
        return len(v) >= n_joinpoints and max(v) <= t

    return {
        "element_spans": {k: v for k, v in spans.items() if k >= 0},
        "stray": spans.get(-1),
        "sim_requests": sim_requests,
        "bulk_docs": bulk_docs,
        "admin_requests": admin,
        "admin_by_client": admin_by_client,
        "over_committed": lambda ei: "parallel" in schedule[ei] and schedule[ei]["parallel"].get("clients") is not None and schedule[ei]["parallel"]["clients"] < sum(t["clients"] for t in schedule[ei]["parallel"]["tasks"]),
        "expected_records": expected_records,
        "expected_dependent": expected_dependent,
        "composite": composite,
        "first_send_of_request": first_send,
        "element_of": element_of,
        "expected_types": expected_types,
        "failed_requests": failed,
        "logical_requests": sum(expected_records.values()),
        "probes": probes,
        "nwire": nwire,
        "last_joinpoint_sent": {},
        "all_joinpoints_sent_before": all_joinpoints_sent_before,
    }


HARNESS = RaceHarness()
