"""C16 -- retryable operations retry exactly as configured (DESIGN.md 5.11).

The real ``runner.Retry`` (reached through the *registered* runner chain of a documented
retryable operation type) is driven on a virtual event loop against a scripted flaky delegate.
The oracle is the documented loop as a reference model: number of attempts, virtual time
between attempts, identity of the final result / exception.
"""
from __future__ import annotations

import asyncio
import copy
import hashlib
import itertools
import json
import re
import socket
import sys

from sim.batch import Harness, RunResult
from sim.vclock import VClock
from sim.vloop import VLoop

# outcome alphabet --------------------------------------------------------------------------
OUTCOMES = [
    "ok",  # {"weight": 1, "unit": "ops", "success": True}
    "ok-nokey",  # dict without a success key -> counts as success
    "fail",  # {"success": False}
    "tuple",  # (1, "ops")
    "none",  # None
    "conn-timeout",  # elasticsearch.ConnectionTimeout
    "conn-error",  # elasticsearch.ConnectionError
    "tls-error",  # elastic_transport.TlsError (a ConnectionError)
    "socket-timeout",  # socket.timeout
    "api-408",
    "api-400",
    "api-404",
    "api-500",
    "api-429",
    "transport-other",  # elastic_transport.SerializationError
    "transport-base",  # elastic_transport.TransportError itself
    "runtime-error",  # not an Elasticsearch error at all
]
RETURNS = {"ok", "ok-nokey", "fail", "tuple", "none"}
TIMEOUTS = {"conn-timeout", "conn-error", "tls-error", "socket-timeout"}

WAITS = [None, 0, 0.01, 0.5, 3]
RETRIES = [None, 0, 1, 2, 3, 5]
TRI = [None, True, False]


def _make_outcome(code, serial):
    import elastic_transport
    import elasticsearch

    def meta(status):
        return elastic_transport.ApiResponseMeta(status=status, http_version="1.1", headers=elastic_transport.HttpHeaders(), duration=0.0, node=elastic_transport.NodeConfig("http", "sim", 9200))

    if code == "ok":
        return ("return", {"weight": 1, "unit": "ops", "success": True, "serial": serial})
    if code == "ok-nokey":
        return ("return", {"weight": 2, "unit": "docs", "serial": serial})
    if code == "fail":
        return ("return", {"weight": 0, "unit": "ops", "success": False, "serial": serial})
    if code == "tuple":
        return ("return", (serial, "ops"))
    if code == "none":
        return ("return", None)
    if code == "conn-timeout":
        return ("raise", elasticsearch.ConnectionTimeout(f"timed out #{serial}"))
    if code == "conn-error":
        return ("raise", elasticsearch.ConnectionError(f"refused #{serial}"))
    if code == "tls-error":
        return ("raise", elastic_transport.TlsError(f"tls #{serial}"))
    if code == "socket-timeout":
        return ("raise", socket.timeout(f"socket #{serial}"))
    if code.startswith("api-"):
        status = int(code[4:])
        cls = elasticsearch.exceptions.HTTP_EXCEPTIONS.get(status, elasticsearch.ApiError)
        return ("raise", cls(message=f"status {status} #{serial}", meta=meta(status), body={"error": {"type": "sim"}}))
    if code == "transport-other":
        return ("raise", elastic_transport.SerializationError(f"bad bytes #{serial}"))
    if code == "transport-base":
        return ("raise", elastic_transport.TransportError(f"transport #{serial}"))
    if code == "runtime-error":
        return ("raise", RuntimeError(f"boom #{serial}"))
    raise AssertionError(code)


def reference(script, params, ctor_until_success):
    """documented behaviour: returns (attempts, waits_after_attempt[bool...], final_index)"""
    until = params.get("retry-until-success", ctor_until_success)
    if until:
        max_attempts = None
        on_error = True
    else:
        max_attempts = params.get("retries", 0) + 1
        on_error = params.get("retry-on-error", False)
    on_timeout = params.get("retry-on-timeout", True)
    attempts = 0
    i = 0
    while True:
        code = script[i] if i < len(script) else "ok"
        attempts += 1
        last = max_attempts is not None and attempts == max_attempts
        retry = False
        if not last:
            if code in RETURNS:
                retry = on_error and code == "fail"
            elif code in TIMEOUTS or code == "api-408":
                retry = on_timeout
            else:
                retry = False
        if not retry:
            return attempts, i
        i += 1


class Scripted:
    """the flaky delegate (a runner object with context-manager support)"""

    def __init__(self, loop, script, durations):
        self.loop = loop
        self.script = script
        self.durations = durations
        self.calls = []  # (start, end, code, payload)
        self.entered = 0
        self.exited = 0

    async def __aenter__(self):
        self.entered += 1
        return self

    async def __aexit__(self, *a):
        self.exited += 1
        return False

    async def __call__(self, es, params):
        n = len(self.calls)
        code = self.script[n] if n < len(self.script) else "ok"
        start = self.loop.time()
        d = self.durations[n % len(self.durations)] if self.durations else 0
        if d:
            await asyncio.sleep(d)
        kind, payload = _make_outcome(code, n)
        self.calls.append((start, self.loop.time(), code, payload))
        if len(self.calls) > 64:
            raise AssertionError("more than 64 attempts: the retry loop does not terminate")
        if kind == "raise":
            raise payload
        return payload

    def __repr__(self):
        return "scripted delegate"


def _documented_retryable():
    import esrally

    path = esrally.__file__.rsplit("/", 2)[0] + "/docs/track.rst"
    lines = open(path, encoding="utf-8").read().split("\n")
    heads = [(i, l.strip()) for i, l in enumerate(lines) if i + 1 < len(lines) and re.fullmatch(r"~{3,}", lines[i + 1]) and l.strip()]
    out = []
    for i, l in enumerate(lines):
        if "This operation is :ref:`retryable" in l:
            prev = [h for h in heads if h[0] < i]
            if prev:
                out.append(prev[-1][1])
    return out


class RetryHarness(Harness):
    name = "retry"
    properties = ("C16",)

    def __init__(self):
        self.ops = None

    def meta(self, prop):
        return {
            "level": "fault_enumeration",
            "rule": "cases = (operation type from docs/track.rst marked retryable, retry parameters incl. absent=default, outcome script of the flaky "
            "delegate, delegate durations); all scripts up to a tier-dependent length x all parameter combinations are enumerated, longer ones are "
            "seeded samples; a case is non-trivial if the reference model retries at least once or ends in a propagated error; distinct = distinct "
            "(parameters, script, observed attempt times, outcome) digests",
            "assumptions": [
                "the scripted delegate stands in for the wrapped runner; the registered runner chain (multi-cluster, assertions, completion wrappers, Retry) is real",
                "after the script is exhausted the delegate succeeds (bounds retry-until-success)",
                "a plain Python exception that is not an Elasticsearch error must propagate immediately (not stated in the property; natural reading of 'only after')",
            ],
            "components_real": ["esrally.driver.runner.Retry", "runner.register_default_runners / runner_for wrapper chain", "asyncio.sleep on a virtual loop"],
            "components_stub": ["wrapped runner (scripted outcomes)", "Elasticsearch client (unused sentinel)"],
            "quick_budget_s": 25.0,
            "thorough_budget_s": 240.0,
        }

    def setup(self, prop, tier):
        from esrally.driver import runner

        runner.register_default_runners(None)
        self.ops = sorted(set(_documented_retryable()))
        if len(self.ops) < 10:
            raise RuntimeError("could not parse the list of retryable operations from docs/track.rst")

    def chunk_size(self, prop, tier):
        return 600

    # -- enumeration -----------------------------------------------------------------------
    def enumerated(self, prop, tier):
        maxlen = 2 if tier == "quick" else 3
        k = 0
        for n in range(0, maxlen + 1):
            for script in itertools.product(OUTCOMES, repeat=n):
                for retries in (None, 0, 1, 2, 3):
                    for until in TRI:
                        for on_timeout in TRI:
                            for on_error in TRI:
                                if tier == "quick" and n == 2 and (k % 5):
                                    k += 1
                                    continue
                                k += 1
                                yield {
                                    "op": self.ops[k % len(self.ops)],
                                    "script": list(script),
                                    "retries": retries,
                                    "until": until,
                                    "on_timeout": on_timeout,
                                    "on_error": on_error,
                                    "wait": WAITS[k % len(WAITS)],
                                    "durations": [[0], [0.25], [0, 1.5, 0.001]][k % 3],
                                }

    def generate(self, prop, g, tier):
        n = g.randint(1, 8 if tier == "quick" else 12)
        # bias towards retryable outcomes so that long scripts are actually consumed
        weights = [3 if o in TIMEOUTS or o in ("fail", "api-408") else 1 for o in OUTCOMES]
        return {
            "op": g.pick(self.ops),
            "script": [OUTCOMES[g.weighted(weights)] for _ in range(n)],
            "retries": g.pick(RETRIES + [7, 11]),
            "until": g.pick(TRI),
            "on_timeout": g.pick(TRI),
            "on_error": g.pick(TRI),
            "wait": g.pick(WAITS),
            "durations": [g.pick([0, 0, 0.001, 0.3, 2.0]) for _ in range(g.randint(1, 3))],
            # a race registers one runner object per operation type and every task and client of that type calls it: in 40 % of
            # the cases the judged invocation is not the first one of its runner object
            "prior": [self._invocation(g) for _ in range(g.pick([1, 1, 2]))] if g.coin(0.4) else None,
        }

    def _invocation(self, g):
        weights = [3 if o in TIMEOUTS or o in ("fail", "api-408") else 1 for o in OUTCOMES]
        return {"script": [OUTCOMES[g.weighted(weights)] for _ in range(g.randint(1, 4))], "retries": g.pick(RETRIES), "until": g.pick([None, None, False]), "on_timeout": g.pick(TRI), "on_error": g.pick(TRI), "wait": g.pick(WAITS)}

    def simplify(self, prop, cfg):
        s = cfg["script"]
        for i in range(len(s)):
            c = dict(cfg)
            c["script"] = s[:i] + s[i + 1 :]
            yield c
        if cfg.get("prior"):
            c = dict(cfg)
            c["prior"] = cfg["prior"][1:] or None
            yield c
        for k in ("retries", "until", "on_timeout", "on_error", "wait"):
            if cfg[k] is not None:
                c = dict(cfg)
                c[k] = None
                yield c
        if cfg["durations"] != [0]:
            c = dict(cfg)
            c["durations"] = [0]
            yield c

    # -- one simulated run -----------------------------------------------------------------
    def execute(self, prop, cfg, ch, tier):
        from esrally.driver import runner

        params = {}
        if cfg["retries"] is not None:
            params["retries"] = cfg["retries"]
        if cfg["until"] is not None:
            params["retry-until-success"] = cfg["until"]
        if cfg["on_timeout"] is not None:
            params["retry-on-timeout"] = cfg["on_timeout"]
        if cfg["on_error"] is not None:
            params["retry-on-error"] = cfg["on_error"]
        if cfg["wait"] is not None:
            params["retry-wait-period"] = cfg["wait"]
        wait = 0.5 if cfg["wait"] is None else cfg["wait"]

        violations = []

        def bad(oracle, key, msg):
            violations.append({"oracle": oracle, "key": f"{oracle}:{key}", "message": msg})

        # every case gets runner objects of its own: state that a runner keeps between invocations must not leak between cases
        registered = copy.deepcopy(runner.runner_for(cfg["op"]))
        # find the Retry wrapper inside the registered chain
        chain = []
        r = registered
        retry = None
        while r is not None:
            chain.append(type(r).__name__)
            if isinstance(r, runner.Retry):
                retry = r
                break
            r = getattr(r, "delegate", None)
        if retry is None:
            bad("wrapper-in-place", cfg["op"], f"operation type [{cfg['op']}] is documented as retryable but its registered runner chain {chain} has no Retry wrapper")
            return RunResult(digest=hashlib.sha1(json.dumps(cfg, sort_keys=True).encode()).hexdigest(), violations=violations)
        ctor_until = bool(retry.retry_until_success)
        documented_until_default = cfg["op"] == "get-async-search"
        if ctor_until != documented_until_default:
            bad("wrapper-in-place", cfg["op"] + "/default", f"[{cfg['op']}]: retry-until-success defaults to {ctor_until}, documented default is {documented_until_default}")

        clock = VClock()
        loop = VLoop(clock)
        for inv in cfg.get("prior") or []:
            # earlier invocations of the same runner object (another task, another client); only the last one is judged
            pp = {k2: inv[k1] for k1, k2 in (("retries", "retries"), ("until", "retry-until-success"), ("on_timeout", "retry-on-timeout"), ("on_error", "retry-on-error"), ("wait", "retry-wait-period")) if inv.get(k1) is not None}
            pre = Scripted(loop, inv["script"] + ["ok"] * 64, [0])
            saved = retry.delegate
            retry.delegate = pre

            async def before():
                async with registered:
                    return await registered({"default": object()}, dict(pp))

            try:
                loop.run_until_complete(before())
            except BaseException:  # noqa
                pass
            finally:
                retry.delegate = saved
        scripted = Scripted(loop, cfg["script"], cfg["durations"])
        original = retry.delegate
        retry.delegate = scripted
        outcome = None
        try:

            async def go():
                async with registered:
                    return await registered({"default": object()}, dict(params))

            try:
                outcome = ("return", loop.run_until_complete(go()))
            except AssertionError as e:
                outcome = ("nonterminating", e)
            except BaseException as e:  # noqa
                outcome = ("raise", e)
        finally:
            retry.delegate = original
            loop.close()

        want_attempts, final_index = reference(cfg["script"], params, documented_until_default)
        calls = scripted.calls
        sig = f"{'/'.join(sorted(set(cfg['script'])))}"
        if outcome[0] == "nonterminating":
            bad("attempts", "nonterminating", f"retry loop did not stop: {len(calls)} attempts for script {cfg['script']} params {params}")
        elif len(calls) != want_attempts:
            last_code = calls[min(len(calls), want_attempts) - 1][2] if calls else "-"
            bad(
                "attempts",
                f"after:{last_code}:{'more' if len(calls) > want_attempts else 'fewer'}",
                f"[{cfg['op']}] params {params} script {cfg['script']}: {len(calls)} attempts, documented behaviour gives {want_attempts}",
            )
        else:
            # spacing: the wait period lies between the end of attempt i and the start of attempt i+1
            for i in range(len(calls) - 1):
                gap = calls[i + 1][0] - calls[i][1]
                if abs(gap - wait) > 1e-9:
                    bad("wait-period", f"after:{calls[i][2]}", f"[{cfg['op']}] params {params} script {cfg['script']}: waited {gap}s after attempt {i + 1} ({calls[i][2]}), retry-wait-period is {wait}s")
                    break
            # final result is exactly what the last attempt produced
            kind, payload = ("return", calls[-1][3]) if calls[-1][2] in RETURNS else ("raise", calls[-1][3])
            if outcome[0] != kind or outcome[1] is not payload:
                bad(
                    "final-outcome",
                    f"{calls[-1][2]}",
                    f"[{cfg['op']}] params {params} script {cfg['script']}: final outcome {outcome!r}, the last attempt produced {(kind, payload)!r}",
                )
        if scripted.entered != 1 or scripted.exited != 1:
            bad("context", "enter-exit", f"delegate context entered {scripted.entered} and exited {scripted.exited} times")

        obs = {
            "cfg": cfg,
            "attempts": [(round(a, 9), round(b, 9), c) for a, b, c, _ in calls],
            "outcome": [outcome[0], type(outcome[1]).__name__],
        }
        digest = hashlib.sha1(json.dumps(obs, sort_keys=True, default=str).encode()).hexdigest()
        nontrivial = want_attempts > 1 or outcome[0] == "raise"
        stats = {
            "steps": loop.callbacks_run,
            "sim_s": clock.now,
            "faults": {c: 1 for c in set(x[2] for x in calls) if c not in ("ok", "ok-nokey", "tuple", "none")},
            "probes": {
                "retried": int(want_attempts > 1),
                "exhausted_budget": int(len(calls) == (params.get("retries", 0) + 1) and want_attempts > 1 and not params.get("retry-until-success", documented_until_default)),
                "propagated_error": int(outcome[0] == "raise"),
                "until_success": int(bool(params.get("retry-until-success", documented_until_default))),
            },
        }
        return RunResult(digest=digest, nontrivial=nontrivial, violations=violations, stats=stats, sample=obs)


HARNESS = RetryHarness()
