"""C17 -- metrics store calls survive transient faults and never repeat after success (DESIGN.md 5.12).

Every public operation of ``metrics.EsClient`` runs against a scripted fake cluster client
(``bulk_index``/``index`` through the real ``elasticsearch.helpers.bulk``); ``esrally.time`` reads a
virtual clock, so back-off pauses are observed exactly and cost nothing.
"""
from __future__ import annotations

import hashlib
import itertools
import json
import random

from sim.batch import Harness, RunResult
from sim.vclock import FakeTime, VClock

GENERIC = [
    "ok",
    "conn-timeout",
    "conn-error",
    "tls-error",
    "api-429",
    "api-502",
    "api-503",
    "api-504",
    "api-401",
    "api-403",
    "api-400",
    "api-404",
    "api-409",
    "api-500",
    "api-408",
    "api-413",
    "api-501",
    "transport-other",
    "transport-base",
]
BULK_ONLY = ["items-429", "items-503", "items-502-504", "items-400", "items-429-400", "items-409"]
RETRYABLE = {"conn-timeout", "conn-error", "tls-error", "api-429", "api-502", "api-503", "api-504", "items-429", "items-503", "items-502-504"}
OPS = [
    "get_template",
    "put_template",
    "template_exists",
    "delete_by_query",
    "delete",
    "get_index",
    "create_index",
    "exists",
    "refresh",
    "search",
    "bulk_index",
    "index",
]
BULK_OPS = {"bulk_index", "index"}
MAX_CALLS = 11


def _meta(status):
    import elastic_transport

    return elastic_transport.ApiResponseMeta(status=status, http_version="1.1", headers=elastic_transport.HttpHeaders(), duration=0.0, node=elastic_transport.NodeConfig("http", "metrics-store", 9243))


def _raise_for(code, serial):
    import elastic_transport
    import elasticsearch

    if code == "conn-timeout":
        raise elasticsearch.ConnectionTimeout(f"sim-timeout-{serial}")
    if code == "conn-error":
        raise elasticsearch.ConnectionError(f"sim-refused-{serial}")
    if code == "tls-error":
        raise elastic_transport.TlsError(f"sim-tls-{serial}")
    if code.startswith("api-"):
        status = int(code[4:])
        cls = elasticsearch.exceptions.HTTP_EXCEPTIONS.get(status, elasticsearch.ApiError)
        raise cls(message=f"sim-error-{status}-{serial}", meta=_meta(status), body={"error": {"type": f"sim-error-{status}-{serial}"}})
    if code == "transport-other":
        raise elastic_transport.SerializationError(f"sim-serialization-{serial}")
    if code == "transport-base":
        raise elastic_transport.TransportError(f"sim-transport-{serial}")
    raise AssertionError(code)


ITEM_STATUS = {
    "items-429": [429],
    "items-503": [503],
    "items-502-504": [502, 504],
    "items-400": [400],
    "items-429-400": [429, 400],
    "items-409": [409],
}
ITEM_TYPE = {429: "es_rejected_execution_exception", 503: "unavailable_shards_exception", 502: "bad_gateway", 504: "gateway_timeout", 400: "mapper_parsing_exception", 409: "version_conflict_engine_exception"}


class _Resp:
    def __init__(self, body):
        self.body = body


class FakeIndices:
    def __init__(self, owner):
        self._o = owner

    def get_index_template(self, **kw):
        return self._o._call("indices.get_index_template", kw)

    def put_index_template(self, **kw):
        return self._o._call("indices.put_index_template", kw)

    def exists_index_template(self, **kw):
        return self._o._call("indices.exists_index_template", kw)

    def get(self, **kw):
        return self._o._call("indices.get", kw)

    def create(self, **kw):
        return self._o._call("indices.create", kw)

    def exists(self, **kw):
        return self._o._call("indices.exists", kw)

    def refresh(self, **kw):
        return self._o._call("indices.refresh", kw)


class FakeNodePool:
    def get(self):
        import elastic_transport

        return elastic_transport.NodeConfig("http", "metrics-store", 9243)


class FakeTransport:
    def __init__(self):
        import elastic_transport

        self.node_pool = FakeNodePool()
        self.serializers = elastic_transport.SerializerCollection({"application/json": elastic_transport.JsonSerializer()})


class FakeClient:
    """scripted metrics cluster"""

    def __init__(self, script, clock):
        self.script = script
        self.clock = clock
        self.calls = []  # (vtime, api, kwargs-json, code)
        self.results = []
        self.indices = FakeIndices(self)
        self.transport = FakeTransport()
        self.ok_value = "dict"

    def options(self, **kw):
        return self

    def _call(self, api, kw):
        n = len(self.calls)
        code = self.script[n] if n < len(self.script) else "ok"
        self.calls.append((self.clock.now, api, json.dumps(kw, sort_keys=True, default=lambda o: o.decode() if isinstance(o, bytes) else repr(o)), code))
        if len(self.calls) > 40:
            raise AssertionError("more than 40 calls: the retry loop does not stop")
        if code == "ok":
            # a successful answer may well be falsy: a HEAD request answered with 404 (exists), an empty body, zero hits
            res = {"acknowledged": True, "serial": n} if self.ok_value == "dict" else {"false": False, "empty": {}, "zero": 0, "none": None, "list": []}[self.ok_value]
            self.results.append(res)
            return res
        if code.startswith("items-"):
            if api != "bulk":
                code = "api-" + str(ITEM_STATUS[code][0])  # per-item outcomes only exist for bulk; fall back to the status
                _raise_for(code, n)
            ops = kw["operations"]
            ndocs = len(ops) // 2
            statuses = ITEM_STATUS[code]
            items = []
            for i in range(ndocs):
                if i < len(statuses):
                    st = statuses[i]
                    items.append({"index": {"_index": kw.get("index"), "status": st, "error": {"type": ITEM_TYPE[st], "reason": f"sim-{n}"}}})
                else:
                    items.append({"index": {"_index": kw.get("index"), "status": 201, "result": "created"}})
            return _Resp({"took": 1, "errors": True, "items": items})
        _raise_for(code, n)

    def bulk(self, **kw):
        n = len(self.calls)
        code = self.script[n] if n < len(self.script) else "ok"
        if code == "ok":
            self.calls.append((self.clock.now, "bulk", json.dumps(kw, sort_keys=True, default=lambda o: o.decode() if isinstance(o, bytes) else repr(o)), code))
            ndocs = len(kw["operations"]) // 2
            res = _Resp({"took": 1, "errors": False, "items": [{"index": {"_index": kw.get("index"), "status": 201, "result": "created"}} for _ in range(ndocs)]})
            self.results.append(res)
            return res
        return self._call("bulk", kw)

    def delete_by_query(self, **kw):
        return self._call("delete_by_query", kw)

    def delete(self, **kw):
        return self._call("delete", kw)

    def search(self, **kw):
        return self._call("search", kw)


def invoke(es, op, ndocs):
    if op == "get_template":
        return es.get_template("rally-metrics")
    if op == "put_template":
        return es.put_template("rally-metrics", json.dumps({"index_patterns": ["rally-metrics-*"], "template": {"settings": {}}}))
    if op == "template_exists":
        return es.template_exists("rally-metrics")
    if op == "delete_by_query":
        return es.delete_by_query("rally-races-*", {"query": {"match_all": {}}})
    if op == "delete":
        return es.delete("rally-annotations", "abc")
    if op == "get_index":
        return es.get_index("rally-metrics-2024-01")
    if op == "create_index":
        return es.create_index("rally-metrics-2024-01")
    if op == "exists":
        return es.exists("rally-metrics-2024-01")
    if op == "refresh":
        return es.refresh("rally-metrics-2024-01")
    if op == "search":
        return es.search("rally-results-*", {"query": {"term": {"race-id": "x"}}})
    if op == "bulk_index":
        return es.bulk_index("rally-metrics-2024-01", [{"_source": {"value": i}} for i in range(ndocs)])
    if op == "index":
        return es.index("rally-races-2024-01", {"race-id": "x"}, id="x" if ndocs % 2 else None)
    raise AssertionError(op)


def effective(code, op, ndocs=1):
    """what an outcome code means for this operation (per-item outcomes only exist for bulk requests)"""
    if code.startswith("items-"):
        if op not in BULK_OPS:
            return "api-" + str(ITEM_STATUS[code][0])
        n = 1 if op == "index" else ndocs
        return "items-" + "-".join(str(s) for s in ITEM_STATUS[code][:n])
    return code


def retryable(code):
    if code.startswith("items-"):
        return all(int(s) in (429, 502, 503, 504) for s in code.split("-")[1:])
    return code in RETRYABLE


def reference(script, op, ndocs):
    """(number of calls, index of the deciding outcome, 'return'|'raise')"""
    calls = 0
    i = 0
    while True:
        code = effective(script[i] if i < len(script) else "ok", op, ndocs)
        calls += 1
        if code == "ok":
            return calls, i, "return"
        if retryable(code) and calls < MAX_CALLS:
            i += 1
            continue
        return calls, i, "raise"


def cause_words(code):
    if code == "conn-timeout":
        return ["timeout"]
    if code in ("conn-error", "tls-error"):
        return ["connect"]
    if code == "api-401":
        return ["authenticate"]
    if code == "api-403":
        return ["privileges"]
    if code.startswith("api-"):
        return ["sim-error-" + code[4:]]
    if code == "transport-other":
        return ["sim-serialization"]
    if code == "transport-base":
        return ["sim-transport"]
    if code.startswith("items-"):
        sts = [int(x) for x in code.split("-")[1:]]
        fatal = [x for x in sts if x not in (429, 502, 503, 504)]
        return [ITEM_TYPE[x] for x in (fatal or sts)]
    return []


class GuardedHarness(Harness):
    name = "guarded"
    properties = ("C17",)

    def meta(self, prop):
        return {
            "level": "fault_enumeration",
            "rule": "cases = (store operation, outcome script of the metrics cluster, number of documents); all scripts up to a tier-dependent length "
            "for every operation are enumerated, longer ones (up to 13 outcomes) are seeded samples biased to retryable faults; non-trivial = at least "
            "one retry or a raised error; distinct = distinct (operation, script, observed call times, outcome) digests",
            "assumptions": [
                "the metrics cluster is a scripted fake client; per-item bulk outcomes are produced by the real elasticsearch.helpers.bulk from a scripted bulk response",
                "a 'call' is one invocation of the wrapped client function (helpers.bulk re-sends all items of a retried chunk; not judged)",
                "'naming the cause' is checked as a cause-specific word in the message (timeout / connect / authenticate / privileges / the API or transport error text / the item error type)",
            ],
            "components_real": ["esrally.metrics.EsClient (all operations, guarded)", "elasticsearch.helpers.bulk", "esrally.time.sleep on the virtual clock"],
            "components_stub": ["metrics cluster client (scripted outcomes)"],
            "quick_budget_s": 25.0,
            "thorough_budget_s": 240.0,
        }

    def chunk_size(self, prop, tier):
        return 500

    def enumerated(self, prop, tier):
        maxlen = 2 if tier == "quick" else 3
        k = 0
        for op in OPS:
            alphabet = GENERIC + (BULK_ONLY if op in BULK_OPS else [])
            for n in range(0, maxlen + 1):
                for script in itertools.product(alphabet, repeat=n):
                    k += 1
                    yield {"op": op, "script": list(script), "ndocs": 1 + k % 3}
        # exhaustion: 10, 11 and 12 retryable outcomes of every retryable kind, each followed by success / a fatal error
        for op in OPS:
            for code in sorted(RETRYABLE):
                if code.startswith("items-") and op not in BULK_OPS:
                    continue
                for n in (9, 10, 11, 12):
                    for tail in ([], ["api-400"], ["conn-timeout"]):
                        k += 1
                        yield {"op": op, "script": [code] * n + tail, "ndocs": 1 + k % 3}

    def generate(self, prop, g, tier):
        op = g.pick(OPS)
        alphabet = GENERIC + (BULK_ONLY if op in BULK_OPS else [])
        weights = [6 if a in RETRYABLE else 1 for a in alphabet]
        n = g.randint(1, 13)
        cfg = {"op": op, "script": [alphabet[g.weighted(weights)] for _ in range(n)], "ndocs": g.randint(1, 3)}
        if g.coin(0.3):
            cfg["ok_value"] = g.pick(["false", "empty", "zero", "none", "list"])
        if g.coin(0.4):
            # the store client lives as long as the race: earlier operations on the same client, each with its own outcomes
            prior = []
            for _ in range(g.pick([1, 1, 2, 3])):
                pop = g.pick(OPS)
                palpha = GENERIC + (BULK_ONLY if pop in BULK_OPS else [])
                pw = [4 if a in RETRYABLE else 1 for a in palpha]
                prior.append({"op": pop, "script": [palpha[g.weighted(pw)] for _ in range(g.randint(0, 5))], "ndocs": g.randint(1, 3)})
            cfg["prior"] = prior
        return cfg

    def simplify(self, prop, cfg):
        s = cfg["script"]
        for i in range(len(s)):
            c = dict(cfg)
            c["script"] = s[:i] + s[i + 1 :]
            yield c
        if cfg["ndocs"] > 1:
            c = dict(cfg)
            c["ndocs"] = 1
            yield c
        if cfg.get("prior"):
            for i in range(len(cfg["prior"])):
                c = dict(cfg)
                c["prior"] = cfg["prior"][:i] + cfg["prior"][i + 1 :]
                yield c
            for i, pr in enumerate(cfg["prior"]):
                for j in range(len(pr["script"])):
                    c = dict(cfg)
                    c["prior"] = [dict(x) for x in cfg["prior"]]
                    c["prior"][i]["script"] = pr["script"][:j] + pr["script"][j + 1 :]
                    yield c
        if cfg.get("ok_value"):
            c = dict(cfg)
            del c["ok_value"]
            yield c

    def execute(self, prop, cfg, ch, tier):
        import esrally.time as rally_time
        from esrally import exceptions, metrics

        violations = []

        def bad(oracle, key, msg):
            violations.append({"oracle": oracle, "key": f"{oracle}:{key}", "message": f"{cfg['op']} script {cfg['script']}: {msg}"})

        clock = VClock()
        saved = rally_time.time
        rally_time.time = FakeTime(clock)
        random.seed(ch.stream("backoff-jitter").choose(1 << 30))
        fake = FakeClient(cfg["script"], clock)
        fake.ok_value = cfg.get("ok_value", "dict")
        es = metrics.EsClient(fake)
        op = cfg["op"]
        try:
            for pr in cfg.get("prior") or []:
                # earlier operations on the same client object; only the last one is judged
                fake.script, fake.calls, fake.results = pr["script"], [], []
                try:
                    invoke(es, pr["op"], pr["ndocs"])
                except BaseException:  # noqa
                    pass
            fake.script, fake.calls, fake.results = cfg["script"], [], []
            del clock.sleeps[:]
            try:
                outcome = ("return", invoke(es, op, cfg["ndocs"]))
            except AssertionError as e:
                outcome = ("nonterminating", e)
            except Exception as e:  # noqa
                outcome = ("raise", e)
        finally:
            rally_time.time = saved

        want_calls, idx, want_kind = reference(cfg["script"], op, cfg["ndocs"])
        calls = fake.calls
        deciding = effective(cfg["script"][idx] if idx < len(cfg["script"]) else "ok", op, cfg["ndocs"])
        if outcome[0] == "nonterminating":
            bad("calls", "nonterminating", f"{len(calls)} calls and still retrying")
        elif len(calls) != want_calls:
            last = effective(calls[min(len(calls), want_calls) - 1][3], op, cfg["ndocs"]) if calls else "-"
            bad("calls", f"after:{last}:{'more' if len(calls) > want_calls else 'fewer'}", f"{len(calls)} calls to the store, documented behaviour gives {want_calls}")
        else:
            # same request every time
            if len({(c[1], c[2]) for c in calls}) != 1:
                bad("same-request", op, f"attempts differ in their arguments: {[(c[1], c[2][:80]) for c in calls][:3]}")
            # pauses: 2^i + r, r in [0,1), strictly increasing, one per retry
            pauses = [d for _, d in clock.sleeps]
            if len(pauses) != want_calls - 1:
                bad("backoff", "count", f"{len(pauses)} pauses for {want_calls} calls: {pauses}")
            else:
                for i, d in enumerate(pauses):
                    if not (2**i <= d < 2**i + 1):
                        bad("backoff", f"pause-{min(i, 3)}", f"pause #{i} was {d}s, expected within [{2 ** i}, {2 ** i + 1})")
                        break
                for i in range(len(calls) - 1):
                    if abs((calls[i + 1][0] - calls[i][0]) - pauses[i]) > 1e-9:
                        bad("backoff", "timing", f"call {i + 2} came {calls[i + 1][0] - calls[i][0]}s after call {i + 1}, pause was {pauses[i]}")
                        break
            if want_kind == "return":
                if outcome[0] != "return":
                    bad("outcome", f"raised-after-success:{type(outcome[1]).__name__}", f"raised {outcome[1]!r} although attempt {want_calls} succeeded")
                elif op not in BULK_OPS and outcome[1] is not fake.results[-1]:
                    bad("outcome", "wrong-result", f"returned {outcome[1]!r}, the successful attempt produced {fake.results[-1]!r}")
            else:
                if outcome[0] != "raise":
                    bad("outcome", f"swallowed:{deciding}", f"returned {outcome[1]!r} although the deciding outcome was {deciding}")
                elif not isinstance(outcome[1], exceptions.RallyError):
                    bad("outcome", f"not-rally-error:{deciding}", f"raised {type(outcome[1]).__name__}: {outcome[1]} instead of a Rally error")
                else:
                    text = str(outcome[1].message if hasattr(outcome[1], "message") else outcome[1]).lower()
                    words = cause_words(deciding)
                    if words and not any(w.lower() in text for w in words):
                        bad("outcome", f"cause-not-named:{deciding}", f"error message does not name the cause ({words}): {text[:300]}")

        obs = {"cfg": cfg, "calls": [(round(t, 6), api, code) for t, api, _, code in calls], "outcome": [outcome[0], type(outcome[1]).__name__]}
        digest = hashlib.sha1(json.dumps(obs, sort_keys=True).encode()).hexdigest()
        stats = {
            "steps": len(calls),
            "sim_s": clock.now,
            "faults": {c: 1 for c in {effective(x[3], op, cfg["ndocs"]) for x in calls} if c != "ok"},
            "probes": {
                "retried": int(want_calls > 1),
                "exhausted": int(want_calls == MAX_CALLS and want_kind == "raise" and retryable(deciding)),
                "success_on_last_allowed_call": int(want_calls == MAX_CALLS and want_kind == "return"),
                "fatal": int(want_kind == "raise" and not retryable(deciding)),
                "bulk_item_errors": int(any(x[3].startswith("items-") for x in calls) and op in BULK_OPS),
            },
        }
        return RunResult(digest=digest, nontrivial=want_calls > 1 or want_kind == "raise", violations=violations, stats=stats, sample=obs)


HARNESS = GuardedHarness()
