"""C03 -- bulk indexing ingests every corpus document exactly once across clients (DESIGN.md 5.2).

Real files in a scratch directory, real offset tables (``io.prepare_file_offset_table``), real
``BulkIndexParamSource`` / readers / ``io.MmapSource`` / ``skip_lines``, real ``bulk`` runner and client
stack; one simulated worker (virtual loop) per contiguous client group; seeded service times decide
in which order co-located clients ask the shared parameter source for their next bulk.
"""
from __future__ import annotations

import atexit
import hashlib
import json
import math
import os
import random
import shutil
import tempfile

from sim import rallyenv
from sim.batch import Harness, RunResult
from sim.loadsim import LoadSim, history_digest
from sim.simes import Installed, Outcome, SimES
from sim.vclock import Proc, VClock

LARGE_SIZES = [50_001, 100_000, 130_007]


def doc_line(fid, i, utf8):
    if utf8:
        return ('{"n":%d,"f":"%s","t":"héllo wörld ✓ %d"}\n' % (i, fid, i * 7)).encode("utf-8")
    return ('{"n":%d,"f":"%s","p":"%s"}\n' % (i, fid, "x" * (i % 13))).encode("utf-8")


def meta_line(index, i):
    return ('{"index":{"_index":"%s","_id":"m%d"}}\n' % (index, i)).encode("utf-8")


def write_file(path, fid, docs, meta, utf8, index, no_eol=False):
    with open(path, "wb") as f:
        for i in range(docs):
            if meta:
                f.write(meta_line(index, i))
            line = doc_line(fid, i, utf8)
            # (a corpus file whose last document is not terminated by a newline is still a line for every line count)
            f.write(line[:-1] if no_eol and i == docs - 1 else line)


class BulkHarness(Harness):
    name = "bulk"
    properties = ("C03",)

    def __init__(self):
        self.scratch = None
        self.large = {}

    def meta(self, prop):
        return {
            "level": "exploration",
            "rule": "cases = (1-3 corpora x 1-3 real files of 0-300 documents or, in a fixed share, 50,001-130,007 lines so that offset tables have 1-2 entries and "
            "skip_lines seeks; with/without action-and-meta-data lines; multi-byte content; client count 1-9; contiguous split into 1-4 worker groups; bulk/batch "
            "size; ingest percentage; conflict mode/probability/recency; index or data stream target; offset tables present or deleted) x seeded service times "
            "that decide the order in which co-located clients pull bulks; non-trivial = at least 2 groups or 2 co-located clients and at least 2 bulks; "
            "distinct = distinct wire-history digests. A pure side-check calls bounds()/number_of_bulks() for sampled (docs up to 10^12, clients) pairs (telescoping), "
            "reported as probe 'huge_bounds_checked', not counted as simulation.",
            "assumptions": [
                "a worker group is a contiguous range of client indices of the task (as in the property)",
                "files of 10^12 documents are not materialised; only the slice arithmetic is evaluated for them",
                "the order of a group's stream at ingest-percentage < 100 is compared with the real parameter source iterated at 100 % (metamorphic)",
            ],
            "components_real": [
                "esrally.track.params: BulkIndexParamSource, PartitionBulkIndexParamSource, bounds, number_of_bulks, create_readers, chain, Slice, IndexDataReader family, GenerateActionMetaData, build_conflicting_ids",
                "esrally.utils.io: MmapSource, FileOffsetTable, prepare_file_offset_table, skip_lines (real files)",
                "esrally.track.loader.TrackSpecificationReader (corpora parsing)",
                "esrally.driver.driver: AsyncIoAdapter.run, schedule_for, AsyncExecutor; runner.BulkIndex; client stack",
            ],
            "components_stub": ["Elasticsearch _bulk endpoint (SimES)", "OS threads (one virtual loop per worker group)"],
            "quick_budget_s": 40.0,
            "thorough_budget_s": 600.0,
            "det_sample_quick": 5,
        }

    def setup(self, prop, tier):
        from esrally.utils import io

        self.scratch = tempfile.mkdtemp(prefix="esrally-verif-c03-")
        atexit.register(shutil.rmtree, self.scratch, True)
        # large files are built once by the parent; forked children only read them
        for n in LARGE_SIZES:
            for meta in (False, True):
                fid = f"L{n}{'m' if meta else ''}"
                path = os.path.join(self.scratch, fid + ".json")
                write_file(path, fid, n, meta, n % 2 == 0, "idx0")
                io.prepare_file_offset_table(path)
                self.large[fid] = (path, n, meta)

    def teardown(self):
        if self.scratch:
            shutil.rmtree(self.scratch, ignore_errors=True)

    def chunk_size(self, prop, tier):
        return 6

    # -- generation ------------------------------------------------------------------------
    def generate(self, prop, g, tier):
        large_run = g.coin(0.12)
        corpora = []
        ncorp = 1 if large_run else g.pick([1, 1, 2, 3])
        for ci in range(ncorp):
            files = []
            for fi in range(1 if large_run else g.pick([1, 1, 2, 3])):
                if large_run:
                    n = g.pick(LARGE_SIZES)
                    meta = g.coin(0.4)
                    files.append({"large": f"L{n}{'m' if meta else ''}", "docs": n, "meta": meta})
                else:
                    files.append({"docs": g.pick([0, 1, 2, 3, 7, 10, 31, 64, 100, 257, 300]) if g.coin(0.5) else g.randint(0, 300 if tier == "quick" else 2500), "meta": g.coin(0.3), "utf8": g.coin(0.4), "no_eol": g.coin(0.15)})
            corpora.append({"name": f"c{ci}", "files": files})
        if not large_run and all(f["docs"] == 0 for c in corpora for f in c["files"]):
            corpora[0]["files"][0]["docs"] = 5
        clients = g.pick([1, 2, 3, 4, 5, 6, 7, 8, 9] + ([12, 16, 17] if tier == "thorough" else []))
        ngroups = min(clients, g.pick([1, 1, 2, 3, 4]))
        cuts = sorted(g.sample(range(1, clients), ngroups - 1)) if ngroups > 1 else []
        b = [0] + cuts + [clients]
        any_meta = any(f["meta"] for c in corpora for f in c["files"])
        cfg = {
            "corpora": corpora,
            "clients": clients,
            "layout": [list(range(b[i], b[i + 1])) for i in range(ngroups)],
            "bulk": g.pick([1, 2, 3, 5, 10, 50, 100, 500]) if not large_run else g.pick([500, 1000, 5000]),
            "batch_mult": g.pick([1, 1, 1, 2, 4]),
            "ingest": g.pick([100, 100, 100, 50, 10, 33.3, 99.9, 1]),
            "conflicts": None if any_meta else g.pick([None, None, "sequential", "random"]),
            "cprob": g.pick([25, 50, 100, 1]),
            "on_conflict": g.pick(["index", "update"]),
            "recency": g.pick([0, 0, 0.5, 1]),
            "datastream": False,
            "drop_tables": g.coin(0.25),
            "service": {"lo": g.pick([0.001, 0.01]), "spread": g.pick([1, 2, 10, 100])},
            "rand": g.choose(1 << 30),
            "tie_window": g.pick([0, 0, 1e-3]),
        }
        if cfg["conflicts"] is None and not any_meta and g.coin(0.2):
            cfg["datastream"] = True
        if large_run and cfg["ingest"] > 10 and g.coin(0.5):
            cfg["ingest"] = 10  # keep large-file runs short; the seek is what matters there
        return cfg

    def simplify(self, prop, cfg):
        def cp():
            return json.loads(json.dumps(cfg))

        if len(cfg["corpora"]) > 1:
            for i in range(len(cfg["corpora"])):
                c = cp()
                del c["corpora"][i]
                yield c
        for ci, corp in enumerate(cfg["corpora"]):
            if len(corp["files"]) > 1:
                for fi in range(len(corp["files"])):
                    c = cp()
                    del c["corpora"][ci]["files"][fi]
                    yield c
            for fi, f in enumerate(corp["files"]):
                if "large" not in f and f["docs"] > 1:
                    for n in (f["docs"] // 2, f["docs"] - 1):
                        c = cp()
                        c["corpora"][ci]["files"][fi]["docs"] = n
                        yield c
        if len(cfg["layout"]) > 1:
            c = cp()
            c["layout"] = [sum(c["layout"], [])]
            yield c
        if cfg["clients"] > 1:
            c = cp()
            c["clients"] -= 1
            c["layout"] = [list(range(c["clients"]))]
            yield c
        for k, v in (("ingest", 100), ("conflicts", None), ("batch_mult", 1), ("datastream", False), ("drop_tables", False)):
            if cfg[k] != v:
                c = cp()
                c[k] = v
                yield c

    # -- one run -----------------------------------------------------------------------------
    def execute(self, prop, cfg, ch, tier):
        from esrally.driver import driver, runner
        from esrally.track import params as track_params
        from esrally.utils import io

        run_dir = tempfile.mkdtemp(prefix="run-", dir=self.scratch)
        violations = []

        def bad(oracle, key, msg):
            if len(violations) < 12:
                violations.append({"oracle": oracle, "key": f"{oracle}:{key}", "message": msg})

        try:
            # ---- files -------------------------------------------------------------------
            files = {}  # fid -> dict(path, docs, meta, index, lines(list of doc lines))
            corp_specs = []
            nidx = 0
            targets = []
            for corp in cfg["corpora"]:
                dspecs = []
                for fi, f in enumerate(corp["files"]):
                    target = f"idx{nidx % 2}" if not cfg["datastream"] else f"ds{nidx % 2}"
                    nidx += 1
                    if "large" in f:
                        path, n, meta = self.large[f["large"]]
                        fid = f["large"]
                        target = "idx0" if not cfg["datastream"] else "ds0"
                        if cfg["drop_tables"]:
                            # readers must find the same documents the slow way: work on a private link without table
                            link = os.path.join(run_dir, fid + ".json")
                            os.symlink(path, link)
                            path = link
                        utf8 = n % 2 == 0
                    else:
                        fid = f"{corp['name']}f{fi}"
                        path = os.path.join(run_dir, fid + ".json")
                        n, meta, utf8 = f["docs"], f["meta"], f.get("utf8", False)
                        write_file(path, fid, n, meta, utf8, target, f.get("no_eol", False))
                        io.prepare_file_offset_table(path)
                        if cfg["drop_tables"] and os.path.exists(path + ".offset"):
                            os.remove(path + ".offset")
                    files[fid] = {"path": path, "docs": n, "meta": meta, "utf8": utf8, "target": target}
                    targets.append(target)
                    d = {"source-file": os.path.basename(path), "document-count": n, "includes-action-and-meta-data": meta}
                    if not meta:
                        d["target-data-stream" if cfg["datastream"] else "target-index"] = target
                    dspecs.append((d, path))
                corp_specs.append({"name": corp["name"], "documents": [d for d, _ in dspecs], "_paths": [p for _, p in dspecs]})
            op = {"name": "bulk-op", "operation-type": "bulk", "bulk-size": cfg["bulk"]}
            if cfg["batch_mult"] != 1:
                op["batch-size"] = cfg["bulk"] * cfg["batch_mult"]
            if cfg["ingest"] != 100:
                op["ingest-percentage"] = cfg["ingest"]
            if cfg["conflicts"]:
                op["conflicts"] = cfg["conflicts"]
                op["conflict-probability"] = cfg["cprob"]
                op["on-conflict"] = cfg["on_conflict"]
                if cfg["recency"]:
                    op["recency"] = cfg["recency"]
            names = sorted(set(targets))
            spec = {
                "corpora": [{k: v for k, v in c.items() if k != "_paths"} for c in corp_specs],
                "challenges": [{"name": "c", "default": True, "schedule": [{"name": "bulk", "operation": op, "clients": cfg["clients"]}]}],
            }
            spec["data-streams" if cfg["datastream"] else "indices"] = [{"name": n} for n in (names if not cfg["datastream"] else names)] or [{"name": "idx0"}]

            clock = VClock()
            svc = ch.stream("service-time")

            def policy(w):
                return Outcome(delay=cfg["service"]["lo"] * (1 + svc.choose(cfg["service"]["spread"] * 100) / 100.0))

            simes = SimES(clock, policy)
            params_log = []  # (group object id order, returned params)
            group_of_source = {}

            with rallyenv.saved_registries(), rallyenv.patched_time(clock), Installed(simes):
                random.seed(cfg["rand"])
                runner.register_default_runners(None)
                sim = LoadSim(ch, clock)
                track = sim.build_track(spec)
                for corp, cs in zip(track.corpora, corp_specs):
                    for docs, path in zip(corp.documents, cs["_paths"]):
                        docs.document_file = path
                task = track.challenges[0].schedule[0]
                # observation-only wrapper around the shared per-worker parameter source
                orig_params = track_params.PartitionBulkIndexParamSource.params

                def recording_params(self):
                    p = orig_params(self)
                    params_log.append((id(self), tuple(sorted(self.partitions)), p))
                    return p

                track_params.PartitionBulkIndexParamSource.params = recording_params
                try:
                    N = cfg["clients"]
                    for gi, group in enumerate(cfg["layout"]):
                        allocs = [(c, driver.TaskAllocation(task, c, c, N)) for c in group]
                        sim.add_worker(track, Proc(f"worker{gi}"), allocs, group)
                    sim.run(tie_window=cfg["tie_window"])
                finally:
                    track_params.PartitionBulkIndexParamSource.params = orig_params
                errors = [w.error for w in sim.workers if w.error is not None]

                # reference streams at 100 % from the real parameter source (only used for ingest-percentage < 100)
                ref_streams = {}
                if cfg["ingest"] != 100 and not errors:
                    random.seed(cfg["rand"])
                    for gi, group in enumerate(cfg["layout"]):
                        op100 = dict(track.challenges[0].schedule[0].operation.params)
                        op100.pop("ingest-percentage", None)
                        src = track_params.BulkIndexParamSource(track, op100)
                        part = None
                        for c in group:
                            part = src.partition(c, cfg["clients"])
                        stream = []
                        while True:
                            try:
                                stream.append(part.params())
                            except StopIteration:
                                break
                        ref_streams[gi] = stream

            for e in errors:
                bad("run", f"raised:{type(e).__name__}", f"bulk task raised: {e!r}")

            # ---- oracle --------------------------------------------------------------------
            group_of_client = {c: gi for gi, g in enumerate(cfg["layout"]) for c in g}
            # what the cluster received, per group in arrival order
            recv = {gi: [] for gi in range(len(cfg["layout"]))}
            for w in simes.log:
                if not w.path.endswith("/_bulk"):
                    bad("wire", "unexpected-path", f"unexpected request {w.method} {w.path}")
                    continue
                recv[group_of_client[w.client_id]].append(w)
            # what the parameter source handed out, per group in call order
            handed = {gi: [] for gi in range(len(cfg["layout"]))}
            for _, parts, p in params_log:
                gi = group_of_client[parts[0]]
                handed[gi].append(p)
            group_file_seq = {}
            seen_docs = {}  # (fid, n) -> count
            all_ids = {}
            nbulks_total = 0
            for gi, group in enumerate(cfg["layout"]):
                # (the client library terminates a bulk body with a newline if the last line of the corpus file has none)
                bodies_sent = sorted(hashlib.sha1((w.body or b"").rstrip(b"\n")).hexdigest() for w in recv[gi])
                bodies_handed = sorted(hashlib.sha1(p["body"].rstrip(b"\n")).hexdigest() for p in handed[gi])
                if bodies_sent != bodies_handed and not errors:
                    bad("wire", "params-vs-wire", f"group {group}: {len(bodies_handed)} bulks handed out by the parameter source, {len(bodies_sent)} different bodies arrived at the cluster")
                per_file_seq = {}
                emitted_ids = {}
                next_fresh = {}
                for bi, p in enumerate(handed[gi]):
                    nbulks_total += 1
                    lines = p["body"].split(b"\n")
                    if lines and lines[-1] == b"":
                        lines.pop()
                    if len(lines) % 2:
                        bad("bulk-shape", "odd-lines", f"group {group} bulk {bi}: {len(lines)} lines (action/meta-data and document lines must be paired)")
                        break
                    ndocs = len(lines) // 2
                    if p["bulk-size"] != ndocs or ndocs > cfg["bulk"] or ndocs == 0:
                        bad("bulk-shape", "size", f"group {group} bulk {bi}: bulk-size {p['bulk-size']}, {ndocs} documents in the body, configured bulk size {cfg['bulk']}")
                        break
                    ok = True
                    for k in range(ndocs):
                        try:
                            action = json.loads(lines[2 * k])
                            doc = json.loads(lines[2 * k + 1])
                        except ValueError:
                            bad("bulk-shape", "not-json", f"group {group} bulk {bi}: line pair {k} is not JSON: {lines[2 * k][:80]!r} / {lines[2 * k + 1][:80]!r}")
                            ok = False
                            break
                        verb = next(iter(action))
                        if verb == "update":
                            if set(doc) != {"doc"}:
                                bad("bulk-shape", "update-wrap", f"group {group} bulk {bi}: update action without a one-line {{'doc': ...}} body")
                                ok = False
                                break
                            doc = doc["doc"]
                        if "n" not in doc or "f" not in doc:
                            bad("bulk-shape", "pairing", f"group {group} bulk {bi}: pair {k} has action {action} followed by {doc} (not a document line)")
                            ok = False
                            break
                        fid, n = doc["f"], doc["n"]
                        f = files.get(fid)
                        if f is None:
                            bad("cover", "unknown-doc", f"document of unknown file {fid}")
                            ok = False
                            break
                        # byte-identical document line
                        want_line = doc_line(fid, n, f["utf8"]).rstrip(b"\n")
                        got_line = lines[2 * k + 1] if verb != "update" else None
                        if got_line is not None and got_line != want_line:
                            bad("cover", "bytes", f"group {group}: document {n} of {fid} arrived as {got_line[:100]!r}, file has {want_line[:100]!r}")
                            ok = False
                            break
                        seen_docs[(fid, n)] = seen_docs.get((fid, n), 0) + 1
                        per_file_seq.setdefault(fid, []).append(n)
                        meta = action[verb]
                        if f["meta"]:
                            if meta.get("_id") != f"m{n}":
                                bad("bulk-shape", "meta-pairing", f"group {group}: document {n} of {fid} is paired with action line {action}")
                                ok = False
                                break
                        else:
                            if meta.get("_index") != f["target"]:
                                bad("bulk-shape", "target", f"group {group}: document of {fid} sent to {meta.get('_index')}, target is {f['target']}")
                                ok = False
                                break
                            if cfg["datastream"] and verb != "create":
                                bad("bulk-shape", "datastream-verb", f"group {group}: data stream document sent with action {verb}")
                                ok = False
                                break
                            if cfg["conflicts"]:
                                did = meta.get("_id")
                                key = (fid, did)
                                mine = emitted_ids.setdefault(fid, set())
                                if did in mine:
                                    pass  # conflict with an id this group's reader emitted earlier: allowed
                                elif cfg["conflicts"] == "sequential" and fid in next_fresh and did != "%010d" % next_fresh[fid]:
                                    # sequential ids are handed out in order: an id that has not been emitted yet and is not the next
                                    # fresh one is a "conflict" with a document this client has not written
                                    bad("conflicts", "id-not-yet-emitted", f"group {group}: id {did} of {fid} was used although this group has only emitted ids up to {'%010d' % (next_fresh[fid] - 1)} (next fresh id would be {'%010d' % next_fresh[fid]})")
                                    ok = False
                                    break
                                else:
                                    owner = all_ids.get(key)
                                    if owner is not None and owner != gi:
                                        bad("conflicts", "foreign-id", f"group {group} emitted id {did} of {fid} which belongs to group {cfg['layout'][owner]}")
                                        ok = False
                                        break
                                    if verb == "update":
                                        bad("conflicts", "update-of-unseen-id", f"group {group}: update of id {did} of {fid} that this group has not emitted before")
                                        ok = False
                                        break
                                    all_ids[key] = gi
                                    mine.add(did)
                                    if cfg["conflicts"] == "sequential":
                                        try:
                                            next_fresh[fid] = int(did) + 1
                                        except ValueError:
                                            pass
                            elif "_id" in meta:
                                bad("bulk-shape", "unexpected-id", f"group {group}: id generated although conflicts are off: {action}")
                                ok = False
                                break
                    if not ok:
                        break
                # contiguous slices in file order
                for fid, seq in per_file_seq.items():
                    group_file_seq[(gi, fid)] = seq
                    if seq != list(range(seq[0], seq[0] + len(seq))):
                        firstbad = next(i for i in range(1, len(seq)) if seq[i] != seq[i - 1] + 1)
                        bad("slices", "not-contiguous", f"group {group} file {fid}: document {seq[firstbad - 1]} is followed by {seq[firstbad]}")
                        break
                # ingest percentage
                if cfg["ingest"] != 100 and gi in ref_streams and not errors:
                    ref = ref_streams[gi]
                    want = math.ceil(len(ref) * cfg["ingest"] / 100)
                    if len(handed[gi]) != want:
                        bad("ingest-percentage", "count", f"group {group}: issued {len(handed[gi])} bulks, ceil({cfg['ingest']}% of {len(ref)}) = {want}")
                    elif not cfg["conflicts"] and [p["body"] for p in handed[gi]] != [p["body"] for p in ref[:want]]:
                        bad("ingest-percentage", "not-a-prefix", f"group {group}: the {want} bulks issued are not the first {want} bulks of the group's stream")
            # exact cover (only judged at 100 %)
            if cfg["ingest"] == 100 and not errors:
                for fid, f in files.items():
                    counts = [seen_docs.get((fid, n), 0) for n in range(f["docs"])]
                    missing = [n for n, c in enumerate(counts) if c == 0]
                    dup = [n for n, c in enumerate(counts) if c > 1]
                    if missing:
                        bad("cover", "missing", f"file {fid} ({f['docs']} documents, {cfg['clients']} clients in groups {cfg['layout']}): documents never ingested: {missing[:10]}{'...' if len(missing) > 10 else ''} ({len(missing)} in total)")
                    if dup:
                        bad("cover", "duplicate", f"file {fid} ({f['docs']} documents, {cfg['clients']} clients in groups {cfg['layout']}): documents ingested more than once: {dup[:10]}{'...' if len(dup) > 10 else ''} ({len(dup)} in total)")
            else:
                dup = [k for k, c in seen_docs.items() if c > 1]
                if dup:
                    bad("cover", "duplicate", f"documents ingested more than once: {dup[:10]}")
            # groups' slices are ordered by client index
            for fid in files:
                prev_last = -1
                for gi in range(len(cfg["layout"])):
                    seq = group_file_seq.get((gi, fid))
                    if not seq:
                        continue
                    if min(seq) <= prev_last:
                        bad("slices", "group-order", f"file {fid}: group {cfg['layout'][gi]} starts at document {min(seq)} but an earlier group already read up to {prev_last}")
                        break
                    prev_last = max(seq)
            # pure side-check: slice arithmetic for huge files telescopes
            huge_ok = 0
            arith = ch.stream("huge-bounds")
            for _ in range(3):
                D = arith.pick([10**12, 10**12 - 1, 999_999_999_937, 7 * 10**11 + 3, 50_001, 2])
                Nc = arith.pick([1, 2, 3, 7, 8, 64, 1000, 4096])
                cuts = sorted({arith.randint(1, Nc - 1) for _ in range(min(Nc - 1, arith.randint(0, 4)))}) if Nc > 1 else []
                b = [0] + cuts + [Nc]
                pos = 0
                for i in range(len(b) - 1):
                    for meta in (False, True):
                        off, docs, lines = track_params.bounds(D, b[i], b[i + 1] - 1, Nc, meta)
                        if meta is False:
                            if off != pos or docs < 0:
                                bad("bounds", "telescoping", f"bounds({D}, {b[i]}, {b[i + 1] - 1}, {Nc}) starts at {off}, previous slice ended at {pos}")
                            nxt = off + docs
                        elif off != 2 * pos or lines != 2 * docs:
                            bad("bounds", "meta-lines", f"bounds with action-and-meta-data: offset {off} lines {lines} docs {docs} at doc position {pos}")
                    pos = nxt
                if pos != D:
                    bad("bounds", "total", f"slices of {D} documents over {Nc} clients cut at {b} end at {pos}")
                huge_ok += 1

            co_located = any(len(g) > 1 for g in cfg["layout"])
            nontrivial = (len(cfg["layout"]) > 1 or co_located) and nbulks_total >= 2
            interleaved = 0
            for gi, g in enumerate(cfg["layout"]):
                order = [w.client_id for w in recv[gi]]
                if len(g) > 1 and order != sorted(order) and any(order[i] != g[i % len(g)] for i in range(len(order))):
                    interleaved = 1
            probes = {
                "offset_table_seek": int(any("large" in f for c in cfg["corpora"] for f in c["files"]) and not cfg["drop_tables"] and len(cfg["layout"]) + cfg["clients"] > 2),
                "no_offset_table": int(cfg["drop_tables"]),
                "co_located_not_round_robin": interleaved,
                "ingest_percentage": int(cfg["ingest"] != 100),
                "conflicts": int(bool(cfg["conflicts"])),
                "meta_lines_in_file": int(any(f["meta"] for c in cfg["corpora"] for f in c["files"])),
                "more_clients_than_docs": int(any(f["docs"] < cfg["clients"] for c in cfg["corpora"] for f in c["files"])),
                "huge_bounds_checked": huge_ok,
            }
            digest = history_digest(simes, {"bulks": nbulks_total})
            sample = {"cfg": {k: v for k, v in cfg.items() if k not in ("rand",)}, "bulks": nbulks_total, "first_wire": [w.as_dict() for w in simes.log[:2]]}
            return RunResult(digest=digest, nontrivial=nontrivial, violations=violations, stats={"steps": sim.steps, "sim_s": clock.now, "faults": {}, "probes": probes}, sample=sample)
        finally:
            shutil.rmtree(run_dir, ignore_errors=True)


HARNESS = BulkHarness()
