#!/venv/bin/python
"""Entry point: ./check <property id> [--tier quick|thorough] [--replay file]  (see DESIGN.md section 10)"""
import importlib
import os
import sys

VERIF = os.path.dirname(os.path.abspath(__file__))
REPO = os.environ.get("VERIF_REPO", "/repo")

HARNESS_OF = {
    "C16": "checks.retry",
    "C17": "checks.guarded",
    "C04": "checks.loadgen",
    "C05": "checks.loadgen",
    "C18": "checks.loadgen",
    "C03": "checks.bulk",
    "C06": "checks.pipeline",
    "C14": "checks.corpus",
    "C12": "checks.mechanic",
    "C01": "checks.race",
    "C07": "checks.race",
    "C09": "checks.race",
    "C11": "checks.race",
}


def main():
    if len(sys.argv) < 2 or sys.argv[1] not in HARNESS_OF:
        print("usage: check <" + "|".join(sorted(HARNESS_OF)) + "> [--tier quick|thorough] [--replay file]")
        return 2
    if os.environ.get("PYTHONHASHSEED") is None or (os.environ.get("PYTHONHASHSEED") != "0" and not os.environ.get("VERIF_NO_REEXEC")):
        env = dict(os.environ)
        env["PYTHONHASHSEED"] = "0"
        env["VERIF_NO_REEXEC"] = "1"
        os.execve(sys.executable, [sys.executable, os.path.abspath(__file__)] + sys.argv[1:], env)
    # the current working tree of the repository is what runs (nothing is built or cached)
    sys.path[:0] = [VERIF, REPO]
    sys.dont_write_bytecode = True
    os.environ["ESRALLY_VERIF_SIM"] = "1"
    import logging

    logging.disable(logging.CRITICAL)  # Rally logs every retried fault with a traceback; nothing reads it here
    # coroutines abandoned by a simulated crash are collected at the end of their run; CPython reports their unwinding on stderr
    sys.unraisablehook = lambda *a, **kw: None
    from esrally.utils import console

    console.init(quiet=True)
    prop = sys.argv[1]
    mod = importlib.import_module(HARNESS_OF[prop])
    from sim import batch

    return batch.main(mod.HARNESS, prop, sys.argv[2:])


if __name__ == "__main__":
    sys.exit(main())
